#!/bin/sh
# seed_eval.sh <seeded-dir> [props...]: apply seeded/<id>/patch.diff to /repo, run the quick checks of the
# (SEED_REPO=<worktree> uses a scratch worktree of /repo at the same commit instead of /repo itself)
# given properties (default: the property named in meta.json), print their verdict lines, undo the patch.
D="$(cd "$1" && pwd)"; shift
PROPS="$@"
[ -z "$PROPS" ] && PROPS=$(python3 -c "import json,sys;print(json.load(open('$D/meta.json'))['property'])")
R="${SEED_REPO:-/repo}"; cd "$R" || exit 2
git diff --quiet || { echo "/repo has local changes"; exit 2; }
git apply "$D/patch.diff" || { echo "patch does not apply"; exit 2; }
if ! (GOFLAGS=-mod=mod GOPROXY=off go build ./... 2>&1 | tail -3); then echo build-failed; fi
for p in $PROPS; do
  VERIF_REPO="$R" /verif/check $p quick > /tmp/seed_eval_$p.log 2>&1
  rc=$?
  echo "== $p exit=$rc"
  grep -E "^VIOLATION|^  harness=|^INCONCLUSIVE|^REDUCED|^C[0-9]+ quick" /tmp/seed_eval_$p.log | cut -c1-260 | head -12
done
git checkout -- . ; git status --short | head -3
