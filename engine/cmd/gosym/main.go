package main

import (
	"flag"
	"fmt"
	"os"
	"runtime"
	rdebug "runtime/debug"
	"runtime/pprof"
	"strconv"

	"verif/engine/driver"
)

func main() {
	prop := flag.String("prop", "", "property id (C01..C17)")
	tier := flag.String("tier", "quick", "quick|thorough")
	repo := flag.String("repo", "/repo", "repository")
	verif := flag.String("verif", "/verif", "verif dir")
	only := flag.String("only", "", "harness name filter")
	workers := flag.Int("workers", runtime.NumCPU(), "workers")
	maxPaths := flag.Int("maxpaths", 0, "max paths per harness (0 = unlimited)")
	witnesses := flag.Int("witnesses", -1, "witness replays per harness")
	debug := flag.Bool("debug", false, "debug")
	replay := flag.String("replay", "", "replay a counterexample record natively")
	cpuprof := flag.String("cpuprofile", "", "write cpu profile")
	flag.Parse()
	rdebug.SetGCPercent(300)
	rdebug.SetMemoryLimit(16 << 30) // soft limit: the collector works harder instead of the process growing
	if *cpuprof != "" {
		f, _ := os.Create(*cpuprof)
		pprof.StartCPUProfile(f)
		defer pprof.StopCPUProfile()
	}
	seed := int64(1)
	if s := os.Getenv("VERIF_SEED"); s != "" {
		if v, err := strconv.ParseInt(s, 10, 64); err == nil {
			seed = v
		}
	}
	if t := os.Getenv("VERIF_TIER"); t != "" && *tier == "" {
		*tier = t
	}
	if *witnesses < 0 {
		*witnesses = 6
		if *tier == "thorough" {
			*witnesses = 24
		}
	}
	cfg := driver.Config{Repo: *repo, Verif: *verif, Prop: *prop, Tier: *tier, Seed: seed, Workers: *workers, Only: *only,
		MaxPaths: *maxPaths, Witnesses: *witnesses, Debug: *debug, KeepScripts: true}
	if *replay != "" {
		os.Exit(driver.Replay(cfg, *replay))
	}
	if *prop == "" {
		fmt.Println("usage: gosym -prop C05 -tier quick")
		os.Exit(2)
	}
	code := driver.RunProperty(cfg)
	pprof.StopCPUProfile()
	os.Exit(code)
}
