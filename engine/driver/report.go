package driver

import (
	"encoding/json"
	"fmt"
	"go/constant"
	"os"
	"os/signal"
	"path/filepath"
	"sort"
	"strings"
	"syscall"
	"time"

	"golang.org/x/tools/go/ssa"

	"verif/engine/load"
	"verif/engine/smt"
)

type KnownFinding struct {
	Property string `json:"property"`
	Harness  string `json:"harness"`
	Assert   string `json:"assert"`
	Text     string `json:"text"`
	Status   string `json:"status"` // open | fixed
	Commit   string `json:"commit,omitempty"`
}

func loadKnown(path string) []KnownFinding {
	b, err := os.ReadFile(path)
	if err != nil {
		return nil
	}
	var k []KnownFinding
	json.Unmarshal(b, &k)
	return k
}

// expectedReach lists the constant Reach tags in a harness and its local callees (same package, Verif/verif prefix helpers).
func expectedReach(fn *ssa.Function, seen map[*ssa.Function]bool, out map[string]bool) {
	if seen[fn] || fn.Blocks == nil {
		return
	}
	seen[fn] = true
	for _, b := range fn.Blocks {
		for _, ins := range b.Instrs {
			c, ok := ins.(ssa.CallInstruction)
			if !ok {
				continue
			}
			callee := c.Common().StaticCallee()
			if callee == nil {
				continue
			}
			if callee.Pkg != nil && callee.Pkg.Pkg.Path() == load.ApiPath && callee.Name() == "Reach" {
				if k, ok := c.Common().Args[0].(*ssa.Const); ok {
					out[constant.StringVal(k.Value)] = true
				}
				continue
			}
			if callee.Pkg == fn.Pkg && (strings.HasPrefix(callee.Name(), "verif") || strings.HasPrefix(callee.Name(), "Verif")) {
				expectedReach(callee, seen, out)
			}
		}
	}
	for _, an := range fn.AnonFuncs {
		expectedReach(an, seen, out)
	}
}

// RunProperty executes every harness of a property and writes the evidence.
// Exit code: 0 pass (incl. known findings), 1 violation, 2 inconclusive.
func RunProperty(cfg Config) int {
	t0 := time.Now()
	ov, err := load.CollectOverlay(filepath.Join(cfg.Verif, "harness"), cfg.Repo)
	if err != nil {
		fmt.Println("INCONCLUSIVE cannot read harness dir:", err)
		return 2
	}
	tmp, err := os.MkdirTemp("", "gosym-"+cfg.Prop+"-")
	if err != nil {
		fmt.Println("INCONCLUSIVE:", err)
		return 2
	}
	defer os.RemoveAll(tmp)
	stopCleanup := cleanupOnSignal(tmp)
	defer stopCleanup()
	genFile := filepath.Join(tmp, "zz_gen.go")
	if err := load.Generate(cfg.Repo, genFile); err != nil {
		fmt.Println("INCONCLUSIVE cannot generate doc/tag tables:", err)
		return 2
	}
	ov[filepath.Join(cfg.Repo, "internal/zzverif/zz_gen.go")] = genFile
	if fieldsFile := filepath.Join(tmp, "zz_verif_gen_fields.go"); load.GenerateFields(cfg.Repo, fieldsFile) == nil {
		ov[filepath.Join(cfg.Repo, "zz_verif_gen_fields.go")] = fieldsFile
	}
	l, err := load.Load(cfg.Repo, ov, nil)
	if err != nil {
		fmt.Println("INCONCLUSIVE /repo does not load:", err)
		return 2
	}
	loadS := time.Since(t0).Seconds()
	os.MkdirAll(filepath.Join(tmp, "witness"), 0o755)
	os.MkdirAll(filepath.Join(tmp, "cex"), 0o755)
	r := &Run{Cfg: cfg, L: l, P: NewProgram(l, cfg.Tier), FuncsEnc: map[string]int{}, tmp: tmp}

	var names []string
	for n := range l.Harnesses {
		if strings.HasSuffix(n, "_Thorough") && cfg.Tier != "thorough" {
			continue // deep variants run in the thorough tier only
		}
		if strings.HasPrefix(n, "Verif_"+cfg.Prop+"_") && (cfg.Only == "" || strings.Contains(n, cfg.Only)) {
			names = append(names, n)
		}
	}
	sort.Strings(names)
	var droppedMsgs []string
	for _, d := range l.Dropped {
		// a dropped file matters to this property only if it defines one of
		// its harnesses (files that merely share the package do not; files
		// using a dropped file's helpers are dropped themselves and counted)
		if src, err := os.ReadFile(l.Overlay[d]); err == nil && !strings.Contains(string(src), "func Verif_"+cfg.Prop+"_") {
			continue
		}
		droppedMsgs = append(droppedMsgs, fmt.Sprintf("harness file %s does not type-check against this tree; its sub-checks are not encodable", d))
	}
	if len(names) == 0 {
		fmt.Printf("INCONCLUSIVE no harness for %s loads on this tree\n", cfg.Prop)
		return 2
	}
	for _, n := range names {
		hr := r.Explore(n, l.Harnesses[n])
		r.Results = append(r.Results, hr)
		fmt.Printf("harness %s: paths=%d status=%v obligations=%s wall=%.1fs\n", n, hr.Paths, hr.Status, oblSummary(hr), hr.WallS)
	}

	known := loadKnown(filepath.Join(cfg.Verif, "known_findings.json"))
	exit := 0
	inconclusive := []string{}
	reduced := append([]string{}, droppedMsgs...)
	violations := 0
	knownHit := map[string]bool{}
	var samples []interface{}

	// ---- translator validation: native witness replay
	validated := 0
	witnessMismatch := 0
	notComparable := 0
	var allW []*Witness
	for _, hr := range r.Results {
		allW = append(allW, hr.Witnesses...)
	}
	if len(allW) > 0 {
		outs, err := r.NativeReplay(filepath.Join(tmp, "witness"), names)
		if err != nil {
			inconclusive = append(inconclusive, "witness replay: "+err.Error())
		}
		for _, w := range allW {
			o := outs[w.File]
			if o == nil {
				continue
			}
			ok := o.Status == "ok" && eqStrs(o.Reached, w.Reached) && eqStrs(o.Asserts, w.Asserts) && eqStrs(o.Observe, w.Observe)
			if !ok && (len(o.Unused) > 0 || len(o.Missing) > 0) && o.Status == "ok" {
				// the native run asked for a different number of environment
				// interactions (e.g. writes to the destination, which depend on the
				// parity of real compressed sizes that the models do not reproduce):
				// this witness cannot be compared, which is not a disagreement
				notComparable++
				continue
			}
			if ok {
				validated++
			} else {
				witnessMismatch++
				fmt.Printf("WITNESS-MISMATCH %s native{status=%s reached=%v asserts=%v observe=%v missing=%v} symbolic{reached=%v asserts=%v observe=%v}\n",
					w.Harness, o.Status, o.Reached, o.Asserts, o.Observe, o.Missing, w.Reached, w.Asserts, w.Observe)
				if witnessMismatch <= 3 {
					b, _ := os.ReadFile(filepath.Join(tmp, "witness", w.File))
					fmt.Printf("  record: %s\n", b)
				}
			}
		}
		if witnessMismatch > 0 {
			inconclusive = append(inconclusive, fmt.Sprintf("%d witness replays disagree with the encoding", witnessMismatch))
		}
	}

	// ---- violations: replay natively, classify
	replayDir := filepath.Join(cfg.Verif, "replays", cfg.Prop)
	type cexInfo struct {
		hr   *HarnessResult
		id   string
		file string
		desc string
	}
	var cexs []cexInfo
	for _, hr := range r.Results {
		perID := map[string]int{}
		sort.SliceStable(hr.Violations, func(i, j int) bool { return len(hr.Violations[i].Path) < len(hr.Violations[j].Path) })
		for _, ob := range hr.Violations {
			if perID[ob.ID] >= 2 {
				continue
			}
			perID[ob.ID]++
			rec := buildRecord(hr.Name, cfg.Tier, ob.Inputs, ob.Model)
			rec.Assert = ob.ID
			file := fmt.Sprintf("%s-%s-%d.json", hr.Name, sanitize(ob.ID), perID[ob.ID])
			b, _ := json.MarshalIndent(rec, "", " ")
			os.WriteFile(filepath.Join(tmp, "cex", file), b, 0o644)
			cexs = append(cexs, cexInfo{hr, ob.ID, file, describeInputs(ob.Inputs, ob.Model)})
		}
	}
	confirmed := 0
	if len(cexs) > 0 {
		outs, err := r.NativeReplay(filepath.Join(tmp, "cex"), names)
		if err != nil {
			inconclusive = append(inconclusive, "counterexample replay: "+err.Error())
		}
		for _, cx := range cexs {
			o := outs[cx.file]
			repro := false
			if o != nil {
				for _, a := range o.Asserts {
					if a == cx.id+"=false" {
						repro = true
					}
				}
				if strings.HasPrefix(o.Status, "panic") && strings.HasPrefix(cx.id, "nopanic") {
					repro = true
				}
				if o.Race && cfg.Prop == "C12" && (strings.Contains(cx.id, "package-level-variable") || strings.Contains(cx.id, "shared-through-the-configuration") || strings.Contains(cx.id, "handing-it-back-to-a-pool")) {
					repro = true // the native run of this record raced under the race detector
				}
			}
			if !repro {
				st := "no output"
				if o != nil {
					st = fmt.Sprintf("status=%s asserts=%v", o.Status, o.Asserts)
				}
				inconclusive = append(inconclusive, fmt.Sprintf("counterexample for %s/%s does not reproduce natively (%s) inputs: %s", cx.hr.Name, cx.id, st, cx.desc))
				continue
			}
			confirmed++
			var kf *KnownFinding
			for i := range known {
				k := &known[i]
				if k.Property == cfg.Prop && k.Status == "open" && k.Assert == cx.id && (k.Harness == "" || k.Harness == cx.hr.Name) {
					kf = k
				}
			}
			if kf != nil {
				key := kf.Harness + "/" + kf.Assert
				if !knownHit[key] {
					knownHit[key] = true
					fmt.Printf("KNOWN-FINDING: property=%s %s [%s/%s e.g. %s]\n", cfg.Prop, kf.Text, cx.hr.Name, cx.id, cx.desc)
				}
				continue
			}
			os.MkdirAll(replayDir, 0o755)
			src, _ := os.ReadFile(filepath.Join(tmp, "cex", cx.file))
			dst := filepath.Join(replayDir, cx.file)
			os.WriteFile(dst, src, 0o644)
			fmt.Printf("VIOLATION property=%s replay=%s\n", cfg.Prop, dst)
			fmt.Printf("  harness=%s assertion=%s inputs: %s\n", cx.hr.Name, cx.id, cx.desc)
			violations++
			exit = 1
		}
	}
	for i := range known {
		k := &known[i]
		if k.Property == cfg.Prop && k.Status == "open" && !knownHit[k.Harness+"/"+k.Assert] {
			fmt.Printf("NOTE: known finding %s/%s no longer reproduces on this tree\n", k.Harness, k.Assert)
		}
	}

	// ---- vacuity, undecided obligations
	decided := 0
	totalObl := 0
	for _, hr := range r.Results {
		exp := map[string]bool{}
		expectedReach(l.Harnesses[hr.Name], map[*ssa.Function]bool{}, exp)
		for tag := range exp {
			if hr.Reached[tag] == 0 {
				inconclusive = append(inconclusive, fmt.Sprintf("vacuous: Reach(%q) in %s is on no feasible path", tag, hr.Name))
			}
		}
		for k, n := range hr.NotEnc {
			if strings.HasPrefix(k, "panic") {
				continue
			}
			reduced = append(reduced, fmt.Sprintf("%s: %d path(s) ended %s", hr.Name, n, k))
		}
		if hr.Truncated {
			reduced = append(reduced, fmt.Sprintf("%s: exploration truncated at %d paths", hr.Name, hr.Paths))
		}
		for id, a := range hr.Obls {
			totalObl += a.Total
			decided += a.Trivial + a.Discharged + a.Violated
			if a.Unknown > 0 {
				reduced = append(reduced, fmt.Sprintf("%s/%s: %d obligation(s) undecided (solver unknown/timeout)", hr.Name, id, a.Unknown))
			}
		}
		if len(hr.Obls) == 0 {
			inconclusive = append(inconclusive, fmt.Sprintf("%s reached no assertion", hr.Name))
		}
	}
	for _, s := range reduced {
		fmt.Println("REDUCED-BOUND:", s)
	}

	// ---- cross-check a sample of assertion queries with other solvers
	cross, disagree := r.crossCheck()
	if disagree > 0 {
		inconclusive = append(inconclusive, fmt.Sprintf("%d assertion queries decided differently by z3-new/cvc5", disagree))
	}

	if decided == 0 {
		inconclusive = append(inconclusive, "nothing of the property was decided")
	}
	if len(reduced) > 0 {
		// the registered bounds leave nothing undecided on the unchanged tree, so on
		// this tree part of the claimed bound was not covered: never a pass
		inconclusive = append(inconclusive, fmt.Sprintf("%d sub-check(s) not decided within the registered bound (see REDUCED-BOUND lines)", len(reduced)))
	}
	if len(inconclusive) > 0 && exit == 0 {
		exit = 2
	}
	for _, s := range inconclusive {
		fmt.Println("INCONCLUSIVE", s)
	}

	// ---- evidence
	states, transitions := 0, 0
	bounds := map[string]int{}
	var harnessEv []map[string]interface{}
	for _, hr := range r.Results {
		states += hr.Paths
		transitions += hr.Forks + hr.Paths
		for k, v := range hr.Bounds {
			bounds[k] = v
		}
		obl := map[string]interface{}{}
		for id, a := range hr.Obls {
			obl[id] = map[string]interface{}{"total": a.Total, "trivially_true_after_simplification": a.Trivial, "unsat_by_solver": a.Discharged, "violated": a.Violated, "unknown": a.Unknown, "solver_ms": round1(a.Ms)}
			if len(samples) < 12 && a.Discharged > 0 {
				samples = append(samples, map[string]interface{}{"harness": hr.Name, "assertion": id, "verdict": "unsat (holds on every value of the path)", "queries": a.Discharged, "example_path_inputs": first(hr.SamplePaths)})
			}
		}
		harnessEv = append(harnessEv, map[string]interface{}{"harness": hr.Name, "paths": hr.Paths, "path_end_status": hr.Status, "ssa_steps": hr.Steps, "forks": hr.Forks,
			"reach_tags": hr.Reached, "obligations": obl, "wall_s": round1(hr.WallS), "truncated": hr.Truncated, "not_decided": hr.NotEnc})
	}
	if len(samples) == 0 {
		samples = append(samples, map[string]interface{}{"note": "no solver-discharged obligation on this run"})
	}
	for _, cx := range cexs {
		samples = append(samples, map[string]interface{}{"harness": cx.hr.Name, "assertion": cx.id, "verdict": "sat (counterexample)", "inputs": cx.desc})
	}
	type fe struct {
		n string
		c int
	}
	var fes []fe
	for n, c := range r.FuncsEnc {
		fes = append(fes, fe{n, c})
	}
	sort.Slice(fes, func(i, j int) bool { return fes[i].n < fes[j].n })
	var repoFuncs, libFuncs []string
	for _, f := range fes {
		if strings.Contains(f.n, "zzverif") {
			continue
		}
		if strings.Contains(f.n, load.Module) {
			repoFuncs = append(repoFuncs, strings.ReplaceAll(f.n, load.Module, "nfpm"))
		} else {
			libFuncs = append(libFuncs, f.n)
		}
	}
	var redirects []string
	for k, v := range l.Redirects {
		redirects = append(redirects, k+" -> models."+v.Name())
	}
	sort.Strings(redirects)
	ev := map[string]interface{}{
		"property_id": cfg.Prop, "tier": cfg.Tier, "seed": cfg.Seed, "level": "model_checking",
		"coverage": map[string]interface{}{
			"states": states, "transitions": transitions, "traces_validated_against_impl": validated + confirmed,
			"samples":                          samples,
			"explanation":                      "states = symbolic paths executed to their end (each stands for every concrete input satisfying its path condition); transitions = fork decisions + path ends; every assertion on every path is an SMT query pc ∧ ¬assert, unsat = holds",
			"harnesses":                        harnessEv,
			"bounds":                           bounds,
			"functions_encoded_from_repo":      repoFuncs,
			"functions_encoded_from_libraries": libFuncs,
			"model_redirects":                  redirects,
			"queries": map[string]interface{}{"feasibility": r.Stats.FeasQueries, "assertion": r.Stats.AssertQueries, "solver_unknown": r.Stats.Unknown,
				"cross_checked_z3new_cvc5": cross, "cross_check_disagreements": disagree, "total_solver_calls": r.Queries},
			"solver_s":                       round1(r.SolverS),
			"load_and_ssa_build_s":           round1(loadS),
			"obligations":                    totalObl,
			"discharged":                     decided - violations,
			"reduced_bound":                  reduced,
			"inconclusive":                   inconclusive,
			"witness_replays":                validated,
			"witness_replays_not_comparable": notComparable,
			"counterexample_replays":         confirmed,
			"known_findings_matched":         len(knownHit),
			"dropped_harness_files":          l.Dropped,
			"exhaustive":                     false,
		},
		"assumptions": assumptionsFor(cfg.Prop),
		"wall_s":      round1(time.Since(t0).Seconds()),
		"violations":  violations,
	}
	os.MkdirAll(filepath.Join(cfg.Verif, "evidence"), 0o755)
	b, _ := json.MarshalIndent(ev, "", " ")
	os.WriteFile(filepath.Join(cfg.Verif, "evidence", cfg.Prop+".json"), b, 0o644)
	fmt.Printf("%s %s: paths=%d obligations=%d decided=%d violations=%d known=%d witness_ok=%d queries(feas=%d assert=%d cachehit=%d summaries=%d/%d) solver=%.1fs(io %.1fs) wall=%.1fs exit=%d\n",
		cfg.Prop, cfg.Tier, states, totalObl, decided, violations, len(knownHit), validated, r.Stats.FeasQueries, r.Stats.AssertQueries, r.Stats.CacheHits, r.Stats.Summaries, r.Stats.SummaryHits, r.SolverS, r.SolverIO, time.Since(t0).Seconds(), exit)
	return exit
}

func first(s []string) string {
	if len(s) == 0 {
		return ""
	}
	return s[0]
}

func round1(f float64) float64 { return float64(int(f*10+0.5)) / 10 }

func sanitize(s string) string {
	return strings.Map(func(r rune) rune {
		if r >= 'a' && r <= 'z' || r >= 'A' && r <= 'Z' || r >= '0' && r <= '9' || r == '-' || r == '_' || r == '.' {
			return r
		}
		return '_'
	}, s)
}

func oblSummary(hr *HarnessResult) string {
	var ids []string
	for id := range hr.Obls {
		ids = append(ids, id)
	}
	sort.Strings(ids)
	var parts []string
	for _, id := range ids {
		a := hr.Obls[id]
		parts = append(parts, fmt.Sprintf("%s[%d: %dt %du %dV %d?]", id, a.Total, a.Trivial, a.Discharged, a.Violated, a.Unknown))
	}
	return strings.Join(parts, " ")
}

// crossCheck re-decides collected assertion scripts with z3-new and cvc5.
func (r *Run) crossCheck() (checked, disagree int) {
	n := len(r.scripts)
	if n == 0 {
		return 0, 0
	}
	limit := 40
	if r.Cfg.Tier == "thorough" {
		limit = 400
	}
	step := 1
	if n > limit {
		step = n / limit
	}
	type res struct {
		a, b smt.Result
		want string
	}
	jobs := make(chan scriptRec, n)
	out := make(chan res, n)
	cnt := 0
	for i := int(r.Cfg.Seed) % step; i < n; i += step {
		jobs <- r.scripts[i]
		cnt++
	}
	close(jobs)
	w := r.Cfg.Workers
	done := make(chan bool)
	for i := 0; i < w; i++ {
		go func() {
			for s := range jobs {
				out <- res{smt.OneShot("z3-new", 60, s.script), smt.OneShot("cvc5", 60, "(set-logic QF_BV)\n"+s.script), s.verdict}
			}
			done <- true
		}()
	}
	for i := 0; i < w; i++ {
		<-done
	}
	close(out)
	for x := range out {
		checked++
		// the primary verdict for stored scripts: violated ones are sat, others unsat — we only stored with verdict implicit
		want := smt.Unsat
		if x.want == "violated" {
			want = smt.Sat
		} else if x.want != "discharged" {
			continue
		}
		if (x.a != smt.Unknown && x.a != want) || (x.b != smt.Unknown && x.b != want) {
			disagree++
		}
	}
	return checked, disagree
}

// Replay runs one stored counterexample record against the natively compiled
// harness and reports whether the recorded assertion still fails.
func Replay(cfg Config, path string) int {
	b, err := os.ReadFile(path)
	if err != nil {
		fmt.Println("cannot read", path, err)
		return 2
	}
	var rec record
	if err := json.Unmarshal(b, &rec); err != nil {
		fmt.Println("bad record:", err)
		return 2
	}
	ov, err := load.CollectOverlay(filepath.Join(cfg.Verif, "harness"), cfg.Repo)
	if err != nil {
		return 2
	}
	tmp, _ := os.MkdirTemp("", "gosym-replay-")
	defer os.RemoveAll(tmp)
	stopCleanup := cleanupOnSignal(tmp)
	defer stopCleanup()
	genFile := filepath.Join(tmp, "zz_gen.go")
	load.Generate(cfg.Repo, genFile)
	ov[filepath.Join(cfg.Repo, "internal/zzverif/zz_gen.go")] = genFile
	if fieldsFile := filepath.Join(tmp, "zz_verif_gen_fields.go"); load.GenerateFields(cfg.Repo, fieldsFile) == nil {
		ov[filepath.Join(cfg.Repo, "zz_verif_gen_fields.go")] = fieldsFile
	}
	l, err := load.Load(cfg.Repo, ov, nil)
	if err != nil {
		fmt.Println("INCONCLUSIVE /repo does not load:", err)
		return 2
	}
	os.MkdirAll(filepath.Join(tmp, "cex"), 0o755)
	os.WriteFile(filepath.Join(tmp, "cex", "r.json"), b, 0o644)
	r := &Run{Cfg: cfg, L: l, tmp: tmp}
	outs, err := r.NativeReplay(filepath.Join(tmp, "cex"), []string{rec.Harness})
	if err != nil {
		fmt.Println(err)
		return 2
	}
	o := outs["r.json"]
	if o == nil {
		fmt.Println("no replay output")
		return 2
	}
	fmt.Printf("native run of %s: status=%s reached=%v asserts=%v\n", rec.Harness, o.Status, o.Reached, o.Asserts)
	for _, a := range o.Asserts {
		if a == rec.Assert+"=false" {
			fmt.Printf("assertion %s FAILS on the real code with these inputs\n", rec.Assert)
			return 1
		}
	}
	fmt.Printf("assertion %s holds on the real code with these inputs\n", rec.Assert)
	return 0
}

// cleanupOnSignal removes the scratch directory when the process is
// interrupted (a closed output pipe, a timeout's SIGTERM, ^C), so that nothing
// is left under $TMPDIR.
func cleanupOnSignal(dir string) func() {
	ch := make(chan os.Signal, 1)
	signal.Notify(ch, syscall.SIGINT, syscall.SIGTERM, syscall.SIGHUP, syscall.SIGPIPE)
	done := make(chan struct{})
	go func() {
		select {
		case <-ch:
			os.RemoveAll(dir)
			os.Exit(2)
		case <-done:
		}
	}()
	return func() { signal.Stop(ch); close(done) }
}
