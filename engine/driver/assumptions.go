package driver

var commonAssumptions = []string{
	"gosym interprets go/ssa (x/tools v0.29.0) of /repo's working tree; the interpreter itself is trusted, and checked on every run by native witness replay of sampled paths",
	"strings/[]byte have concrete length within the stated bound and fully symbolic bytes; integers are bit-vectors of their Go width",
	"z3 4.8.12 is the deciding solver; a sample of assertion queries is re-decided by z3 5.1.0 and cvc5 1.0",
	"nothing is claimed outside the stated bounds",
}

var propAssumptions = map[string][]string{}

func assumptionsFor(prop string) []string {
	return append(append([]string{}, commonAssumptions...), propAssumptions[prop]...)
}
