// Package driver explores harnesses path by path on a worker pool, collects
// obligations, validates the translation by native witness replay, replays
// counterexamples and writes the evidence file.
package driver

import (
	"encoding/json"
	"fmt"
	"math/rand"
	"os"
	"os/exec"
	"path/filepath"
	"sort"
	"strconv"
	"strings"
	"sync"
	"text/template/parse"
	"time"

	"golang.org/x/tools/go/ssa"

	xexec "verif/engine/exec"
	"verif/engine/load"
	"verif/engine/smt"
	"verif/engine/sym"
)

type Config struct {
	Repo, Verif string
	Prop        string
	Tier        string
	Seed        int64
	Workers     int
	Only        string // harness name filter (substring)
	MaxPaths    int
	Witnesses   int // witness replays per harness
	Debug       bool
	KeepScripts bool
}

type HarnessResult struct {
	Name        string
	Paths       int
	Status      map[string]int
	Reached     map[string]int
	Obls        map[string]*OblAgg
	Steps       int
	Forks       int
	NotEnc      map[string]int
	Violations  []*xexec.Obligation
	Witnesses   []*Witness
	WallS       float64
	Truncated   bool
	Bounds      map[string]int
	SamplePaths []string
}

type OblAgg struct {
	Total, Trivial, Discharged, Violated, Unknown int
	Ms                                            float64
}

type Witness struct {
	File     string
	Harness  string
	Reached  []string
	Asserts  []string
	Observe  []string
	Status   string
	isCex    bool
	assertID string
}

type Run struct {
	Cfg      Config
	L        *load.Loaded
	P        *xexec.Program
	Results  []*HarnessResult
	Stats    xexec.Stats
	SolverS  float64
	SolverIO float64
	Queries  int
	FuncsEnc map[string]int
	mu       sync.Mutex
	scripts  []scriptRec
	tmp      string
}

var lazyBlacklist = []string{"unicode", "unicode/utf16", "runtime", "reflect", "syscall", "fmt", "crypto/", "regexp", "net", "internal/poll",
	"internal/cpu", "math/rand", "encoding/json", "text/template", "html", "log", "testing", "golang.org/", "gopkg.in/", "github.com/ProtonMail",
	"github.com/klauspost", "github.com/ulikunitz", "github.com/spf13", "dario.cat", "github.com/go-git", "github.com/invopop",
	"github.com/goreleaser/chglog", "github.com/goreleaser/fileglob", "github.com/gobwas", "github.com/cavaliergopher", "internal/godebug", "internal/syscall",
	"compress/", "hash/", "encoding/binary", "encoding/base64", "mime", "os/exec", "os/signal", "os/user", "context", "internal/testlog", "vendor/", "math/big", "math/bits", "embed", "flag"}

func NewProgram(l *load.Loaded, tier string) *xexec.Program {
	p := &xexec.Program{Prog: l.Prog, Redirects: l.Redirects, InitPkgs: map[string]bool{}, LazyInit: map[string]bool{}, Tier: tier, ApiPath: load.ApiPath, Summarize: map[string]bool{}, TreeCache: map[string]*parse.Tree{}}
	for k := range l.Summarize {
		p.Summarize[k] = true
	}
	for _, k := range defaultSummarize {
		p.Summarize[k] = true
	}
	for _, sp := range l.Prog.AllPackages() {
		path := sp.Pkg.Path()
		if strings.HasPrefix(path, load.Module) {
			p.InitPkgs[path] = true
			continue
		}
		ok := true
		for _, b := range lazyBlacklist {
			if path == b || strings.HasPrefix(path, strings.TrimSuffix(b, "/")+"/") {
				ok = false
				break
			}
		}
		if path == "unicode/utf8" {
			ok = true
		}
		if ok {
			p.LazyInit[path] = true
		}
	}
	return p
}

// defaultSummarize lists library / repo functions that are pure and worth merging.
var defaultSummarize = []string{}

type scriptRec struct{ script, verdict string }

type job struct {
	prefix []int
}

// Explore runs one harness to exhaustion (or MaxPaths) on a pool of workers.
func (r *Run) Explore(name string, fn *ssa.Function) *HarnessResult {
	hr := &HarnessResult{Name: name, Status: map[string]int{}, Reached: map[string]int{}, Obls: map[string]*OblAgg{}, NotEnc: map[string]int{}, Bounds: map[string]int{}}
	t0 := time.Now()
	var mu sync.Mutex
	cond := sync.NewCond(&mu)
	stack := [][]int{nil}
	active := 0
	done := false
	rng := rand.New(rand.NewSource(r.Cfg.Seed))
	witnessEvery := 1
	nw := 0
	var wg sync.WaitGroup
	stopTick := make(chan bool)
	go func() {
		tk := time.NewTicker(20 * time.Second)
		defer tk.Stop()
		for {
			select {
			case <-stopTick:
				return
			case <-tk.C:
				mu.Lock()
				fmt.Fprintf(os.Stderr, "[%s] %.0fs paths=%d pending=%d status=%v\n", name, time.Since(t0).Seconds(), hr.Paths, len(stack), hr.Status)
				mu.Unlock()
			}
		}
	}()
	workers := r.Cfg.Workers
	for w := 0; w < workers; w++ {
		wg.Add(1)
		go func(w int) {
			defer wg.Done()
			solver, err := smt.New("z3", 60)
			if err != nil {
				panic(err)
			}
			if lf := os.Getenv("GOSYM_SMTLOG"); lf != "" && w == 0 {
				f, _ := os.Create(lf)
				solver.Log = f
				defer f.Close()
			}
			defer solver.Close()
			m := xexec.NewMachine(r.P, solver)
			m.Debug = r.Cfg.Debug
			m.DebugDepth = 6
			m.WantScripts = r.Cfg.KeepScripts
			var lastT, lastIO float64
			var lastQ int
			flush := func(m *xexec.Machine) {
				mu.Lock()
				for id, ag := range m.Agg {
					a := hr.Obls[id]
					if a == nil {
						a = &OblAgg{}
						hr.Obls[id] = a
					}
					a.Total += ag.Total
					a.Trivial += ag.Trivial
					a.Discharged += ag.Discharged
					a.Violated += ag.Violated
					a.Unknown += ag.Unknown
					a.Ms += ag.Ms
				}
				for _, ob := range m.Obligations {
					if ob.Verdict == "violated" {
						hr.Violations = append(hr.Violations, ob)
					}
					if ob.Script != "" {
						r.mu.Lock()
						if len(r.scripts) < 4000 {
							r.scripts = append(r.scripts, scriptRec{ob.Script, ob.Verdict})
						}
						r.mu.Unlock()
					}
				}
				for k, v := range m.Bounds {
					hr.Bounds[k] = v
				}
				r.mu.Lock()
				r.Stats.Paths += m.Stats.Paths
				r.Stats.Steps += m.Stats.Steps
				r.Stats.Forks += m.Stats.Forks
				r.Stats.FeasQueries += m.Stats.FeasQueries
				r.Stats.AssertQueries += m.Stats.AssertQueries
				r.Stats.Unknown += m.Stats.Unknown
				r.Stats.Unwind += m.Stats.Unwind
				r.Stats.CacheHits += m.Stats.CacheHits
				r.Stats.Summaries += m.Stats.Summaries
				r.Stats.SummaryHits += m.Stats.SummaryHits
				for k, v := range m.Stats.FuncsEncoded {
					r.FuncsEnc[k] += v
				}
				r.SolverS += solver.Time.Seconds() - lastT
				r.SolverIO += solver.IOTime.Seconds() - lastIO
				r.Queries += solver.Queries - lastQ
				lastT, lastIO, lastQ = solver.Time.Seconds(), solver.IOTime.Seconds(), solver.Queries
				r.mu.Unlock()
				mu.Unlock()
			}
			for {
				mu.Lock()
				for len(stack) == 0 && active > 0 && !done {
					cond.Wait()
				}
				if done || (len(stack) == 0 && active == 0) {
					done = true
					cond.Broadcast()
					mu.Unlock()
					break
				}
				pre := stack[len(stack)-1]
				stack = stack[:len(stack)-1]
				active++
				mu.Unlock()

				if m.Ctx().NumTerms() > 600_000 {
					flush(m)
					m = xexec.NewMachine(r.P, solver)
					m.Debug = r.Cfg.Debug
					m.DebugDepth = 6
					m.WantScripts = r.Cfg.KeepScripts
				}
				res, pending := m.RunPath(fn, pre)

				var wit *Witness
				mu.Lock()
				takeW := res.Status == "ok" && nw < r.Cfg.Witnesses && rng.Intn(witnessEvery) == 0
				if takeW {
					nw++
					if nw*4 > r.Cfg.Witnesses {
						witnessEvery = witnessEvery*2 + 1
					}
				}
				mu.Unlock()
				if takeW {
					wit = r.makeWitness(m, name, &res, hr)
				}

				mu.Lock()
				hr.Paths++
				hr.Status[res.Status]++
				if res.Status == "notenc" || res.Status == "unwind" || res.Status == "panic" {
					hr.NotEnc[res.Status+": "+res.Msg]++
				}
				if len(hr.SamplePaths) < 3 && res.Status == "ok" {
					hr.SamplePaths = append(hr.SamplePaths, describeInputs(res.Inputs, nil))
				}
				seen := map[string]bool{}
				for _, t := range res.Reached {
					if !seen[t] {
						seen[t] = true
						hr.Reached[t]++
					}
				}
				hr.Steps += res.Steps
				hr.Forks += res.Forks
				if wit != nil {
					hr.Witnesses = append(hr.Witnesses, wit)
				}
				stack = append(stack, pending...)
				if r.Cfg.MaxPaths > 0 && hr.Paths >= r.Cfg.MaxPaths && len(stack) > 0 {
					hr.Truncated = true
					done = true
				}
				active--
				cond.Broadcast()
				mu.Unlock()
			}
			flush(m)
		}(w)
	}
	wg.Wait()
	close(stopTick)
	hr.WallS = time.Since(t0).Seconds()
	return hr
}

type recInput struct {
	Kind  string `json:"kind"`
	Bytes []int  `json:"bytes,omitempty"`
	Val   string `json:"val,omitempty"`
}

type record struct {
	Harness string              `json:"harness"`
	Tier    string              `json:"tier"`
	Inputs  map[string]recInput `json:"inputs"`
	Assert  string              `json:"assert,omitempty"`
}

func buildRecord(harness, tier string, inputs []xexec.Input, model map[string]uint64) record {
	rec := record{Harness: harness, Tier: tier, Inputs: map[string]recInput{}}
	for _, in := range inputs {
		switch in.Kind {
		case "string":
			b := make([]int, len(in.Terms))
			for i, t := range in.Terms {
				b[i] = int(model[t.Name])
			}
			rec.Inputs[in.Name] = recInput{Kind: "string", Bytes: b}
		case "choice":
			rec.Inputs[in.Name] = recInput{Kind: "choice", Val: strconv.Itoa(in.Val)}
		default:
			rec.Inputs[in.Name] = recInput{Kind: in.Kind, Val: strconv.FormatUint(model[in.Terms[0].Name], 10)}
		}
	}
	return rec
}

func describeInputs(inputs []xexec.Input, model map[string]uint64) string {
	var parts []string
	for _, in := range inputs {
		switch in.Kind {
		case "string":
			if model == nil {
				parts = append(parts, fmt.Sprintf("%s=<%d symbolic bytes>", in.Name, len(in.Terms)))
			} else {
				b := make([]byte, len(in.Terms))
				for i, t := range in.Terms {
					b[i] = byte(model[t.Name])
				}
				parts = append(parts, fmt.Sprintf("%s=%q", in.Name, string(b)))
			}
		case "choice":
			parts = append(parts, fmt.Sprintf("%s=%d", in.Name, in.Val))
		default:
			if model == nil {
				parts = append(parts, fmt.Sprintf("%s=<symbolic %s>", in.Name, in.Kind))
			} else {
				parts = append(parts, fmt.Sprintf("%s=%d", in.Name, model[in.Terms[0].Name]))
			}
		}
	}
	return strings.Join(parts, " ")
}

func (r *Run) makeWitness(m *xexec.Machine, harness string, res *xexec.PathResult, hr *HarnessResult) *Witness {
	model, ok := m.PathModel(res)
	if !ok {
		return nil
	}
	rec := buildRecord(harness, r.Cfg.Tier, res.Inputs, model)
	w := &Witness{Harness: harness, Status: res.Status}
	w.Reached = res.Reached
	for _, a := range res.AssertsHit {
		w.Asserts = append(w.Asserts, fmt.Sprintf("%s=%v", a.ID, sym.Eval(a.Cond, model) == 1))
	}
	for _, o := range res.Observed {
		w.Observe = append(w.Observe, o.Name+"="+m.Canon(o.Val, model))
	}
	r.mu.Lock()
	n := len(r.scripts) // just for unique numbering
	_ = n
	w.File = fmt.Sprintf("w-%s-%06d.json", harness, rand.Int31())
	r.mu.Unlock()
	b, _ := json.Marshal(rec)
	os.WriteFile(filepath.Join(r.tmp, "witness", w.File), b, 0o644)
	return w
}

// ---------------------------------------------------------------- native replay

type replayOut struct {
	Race    bool     `json:"-"` // the race detector reported a data race while this record ran
	File    string   `json:"file"`
	Status  string   `json:"status"`
	Reached []string `json:"reached"`
	Asserts []string `json:"asserts"`
	Observe []string `json:"observe"`
	Missing []string `json:"missing"`
	Unused  []string `json:"unused"`
}

// NativeReplay compiles the harnesses natively (go test -overlay) per package
// and runs every record in dir. Returns results keyed by record file name.
func (r *Run) NativeReplay(dir string, harnesses []string) (map[string]*replayOut, error) {
	byPkg := map[string][]string{}
	for _, h := range harnesses {
		byPkg[r.L.HarnessPk[h]] = append(byPkg[r.L.HarnessPk[h]], h)
	}
	out := map[string]*replayOut{}
	for pkgDir, hs := range byPkg {
		sort.Strings(hs)
		fn := r.L.Harnesses[hs[0]]
		pkgName := fn.Pkg.Pkg.Name()
		var sb strings.Builder
		sb.WriteString("//go:build verif\n\npackage " + pkgName + "\n\nimport (\n\t\"testing\"\n\tzzv \"" + load.ApiPath + "\"\n)\n\n")
		sb.WriteString("func TestVerifReplay(t *testing.T) {\n\tzzv.RunReplays(map[string]func(){\n")
		for _, h := range hs {
			fmt.Fprintf(&sb, "\t\t%q: %s,\n", h, h)
		}
		sb.WriteString("\t})\n}\n")
		testFile := filepath.Join(r.tmp, "replaytest_"+strings.ReplaceAll(pkgDir, "/", "_")+"_test.go")
		os.WriteFile(testFile, []byte(sb.String()), 0o644)
		ov := map[string]string{}
		for v, real := range r.L.Overlay {
			skip := false
			for _, d := range r.L.Dropped {
				if d == v {
					skip = true
				}
			}
			if !skip {
				ov[v] = real
			}
		}
		ov[filepath.Join(r.Cfg.Repo, pkgDir, "zz_verif_replay_test.go")] = testFile
		ovj, _ := json.Marshal(map[string]interface{}{"Replace": ov})
		ovFile := filepath.Join(r.tmp, "overlay_"+strings.ReplaceAll(pkgDir, "/", "_")+".json")
		os.WriteFile(ovFile, ovj, 0o644)
		args := []string{"test", "-mod=mod", "-tags", "verif", "-vet=off", "-count=1", "-overlay", ovFile, "-run", "^TestVerifReplay$", "-v", "-timeout", "20m"}
		if r.Cfg.Prop == "C12" {
			args = append(args, "-race") // C12 replays run the operations concurrently under the race detector
		}
		cmd := exec.Command("go", append(args, "./"+pkgDir)...)
		cmd.Dir = r.Cfg.Repo
		cmd.Env = append(os.Environ(), "VERIF_REPLAY_DIR="+dir, "GOFLAGS=-mod=mod", "GOPROXY=off", "GOSUMDB=off", "GOTOOLCHAIN=local")
		b, err := cmd.CombinedOutput()
		got := 0
		race := false
		for _, line := range strings.Split(string(b), "\n") {
			if strings.Contains(line, "WARNING: DATA RACE") {
				race = true
			}
			if i := strings.Index(line, "REPLAY {"); i >= 0 {
				var ro replayOut
				if json.Unmarshal([]byte(line[i+7:]), &ro) == nil {
					ro.Race = race
					race = false
					out[ro.File] = &ro
					got++
				}
			}
		}
		if err != nil && got == 0 {
			return out, fmt.Errorf("native replay build/run failed in %s: %v\n%s", pkgDir, err, tail(string(b), 2000))
		}
	}
	return out, nil
}

func tail(s string, n int) string {
	if len(s) > n {
		return s[len(s)-n:]
	}
	return s
}

func eqStrs(a, b []string) bool {
	if len(a) != len(b) {
		return false
	}
	for i := range a {
		if a[i] != b[i] {
			return false
		}
	}
	return true
}
