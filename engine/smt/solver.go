// Package smt drives one long-lived SMT solver process over SMT-LIB2 text.
package smt

import (
	"bufio"
	"fmt"
	"io"
	"os/exec"
	"strconv"
	"strings"
	"time"

	"verif/engine/sym"
)

type Result int

const (
	Sat Result = iota
	Unsat
	Unknown
)

func (r Result) String() string { return [...]string{"sat", "unsat", "unknown"}[r] }

// Solver keeps a stack of asserted path-condition terms in sync with the
// executor (push per conjunct) so that consecutive queries on a DFS only
// transmit the difference.
type Solver struct {
	Name          string
	cmd           *exec.Cmd
	in            io.WriteCloser
	w             *bufio.Writer
	out           *bufio.Reader
	declared      map[string]bool
	stack         []*sym.Term
	Queries       int
	Errors        int
	Time          time.Duration
	IOTime        time.Duration
	sinceRestart  int
	FeasTimeoutMs int
	Fallbacks     int
	Restarts      int
	Log           io.Writer // optional transcript
	TimeoutS      int
}

func argv(name string, timeoutS int) []string {
	switch name {
	case "z3":
		return []string{"z3", "-in", fmt.Sprintf("-t:%d", timeoutS*1000)}
	case "z3-new":
		return []string{"z3-new", "-in", fmt.Sprintf("-t:%d", timeoutS*1000)}
	case "cvc5":
		return []string{"cvc5", "--incremental", "--lang=smt2", "--produce-models", fmt.Sprintf("--tlimit-per=%d", timeoutS*1000)}
	case "cvc5-int":
		return []string{"cvc5", "--lang=smt2", "--solve-bv-as-int=sum", fmt.Sprintf("--tlimit=%d", timeoutS*1000)}
	}
	panic("unknown solver " + name)
}

// Restart replaces the solver process by a fresh one (z3 slows down badly
// after many thousand push/pop rounds with global declarations).
func (s *Solver) Restart() {
	if s.cmd != nil {
		s.in.Close()
		s.cmd.Process.Kill()
		s.cmd.Wait()
	}
	n, err := New(s.Name, s.TimeoutS)
	if err != nil {
		panic(err)
	}
	s.cmd, s.in, s.w, s.out = n.cmd, n.in, n.w, n.out
	s.declared = map[string]bool{}
	s.stack = nil
	s.sinceRestart = 0
	s.Restarts++
}

func New(name string, timeoutS int) (*Solver, error) {
	a := argv(name, timeoutS)
	cmd := exec.Command(a[0], a[1:]...)
	in, err := cmd.StdinPipe()
	if err != nil {
		return nil, err
	}
	outp, err := cmd.StdoutPipe()
	if err != nil {
		return nil, err
	}
	cmd.Stderr = cmd.Stdout
	if err := cmd.Start(); err != nil {
		return nil, err
	}
	s := &Solver{Name: name, cmd: cmd, in: in, w: bufio.NewWriterSize(in, 1<<16), out: bufio.NewReaderSize(outp, 1<<16), declared: map[string]bool{}, TimeoutS: timeoutS}
	s.send("(set-option :global-declarations true)")
	s.send("(set-option :produce-models true)")
	if name == "cvc5" {
		s.send("(set-logic QF_BV)")
	}
	s.FeasTimeoutMs = 8000
	return s, nil
}

func (s *Solver) Close() {
	if s.cmd != nil {
		s.in.Close()
		s.cmd.Process.Kill()
		s.cmd.Wait()
		s.cmd = nil
	}
}

func (s *Solver) send(line string) {
	if s.Log != nil {
		fmt.Fprintln(s.Log, line)
	}
	s.w.WriteString(line)
	s.w.WriteByte('\n')
}

func (s *Solver) readLine() string {
	s.w.Flush()
	l, err := s.out.ReadString('\n')
	if err != nil {
		return "(error \"solver died: " + err.Error() + "\")"
	}
	l = strings.TrimSpace(l)
	if s.Log != nil {
		fmt.Fprintln(s.Log, "; <- "+l)
	}
	return l
}

func (s *Solver) declare(vars map[string]*sym.Term) {
	for n, v := range vars {
		if !s.declared[n] {
			s.declared[n] = true
			s.send(sym.DeclStr(v))
		}
	}
}

func (s *Solver) assert(t *sym.Term) {
	vars := map[string]*sym.Term{}
	e := sym.SMT(t, vars)
	s.declare(vars)
	s.send("(assert " + e + ")")
}

// Sync makes the solver's assertion stack equal to pc.
func (s *Solver) Sync(pc []*sym.Term) {
	k := 0
	for k < len(pc) && k < len(s.stack) && pc[k] == s.stack[k] {
		k++
	}
	if k < len(s.stack) {
		s.send(fmt.Sprintf("(pop %d)", len(s.stack)-k))
		s.stack = s.stack[:k]
	}
	for ; k < len(pc); k++ {
		s.send("(push 1)")
		s.assert(pc[k])
		s.stack = append(s.stack, pc[k])
	}
}

func (s *Solver) checkSat() Result {
	s.Queries++
	t0 := time.Now()
	s.send("(check-sat)")
	var r Result = Unknown
	for {
		l := s.readLine()
		if strings.HasPrefix(l, "(error") {
			s.Errors++
			r = Unknown
			if strings.Contains(l, "solver died") {
				break
			}
			continue
		}
		switch l {
		case "sat":
			r = Sat
		case "unsat":
			r = Unsat
		case "unknown", "timeout":
			r = Unknown
		default:
			continue
		}
		break
	}
	s.Time += time.Since(t0)
	if s.Log != nil {
		fmt.Fprintf(s.Log, "; time %.1f ms\n", float64(time.Since(t0).Microseconds())/1000)
	}
	return r
}

// Check decides pc ∧ extra. The stack is left synced to pc. A z3 timeout is
// retried with cvc5's integer encoding of bit-vectors, which handles the
// multiply-by-constant constraints of decimal rendering much better.
func (s *Solver) Check(pc []*sym.Term, extra *sym.Term) Result {
	s.Sync(pc)
	var r Result
	if extra == nil {
		r = s.checkSatT(s.FeasTimeoutMs)
	} else {
		s.send("(push 1)")
		s.assert(extra)
		r = s.checkSatT(s.FeasTimeoutMs)
		s.send("(pop 1)")
	}
	if r == Unknown {
		r = s.fallback(pc, extra)
	}
	return r
}

func (s *Solver) fallback(pc []*sym.Term, extra *sym.Term) Result {
	s.Fallbacks++
	t0 := time.Now()
	r := OneShot("cvc5-int", s.TimeoutS, "(set-logic ALL)\n"+Script(pc, extra))
	if r == Unknown {
		r = OneShot("z3-new", s.TimeoutS, Script(pc, extra))
	}
	s.Time += time.Since(t0)
	return r
}

func (s *Solver) checkSatT(ms int) Result {
	if s.Name == "z3" && ms > 0 {
		s.send(fmt.Sprintf("(set-option :timeout %d)", ms))
		r := s.checkSat()
		s.send(fmt.Sprintf("(set-option :timeout %d)", s.TimeoutS*1000))
		return r
	}
	return s.checkSat()
}

// CheckIsolated decides the conjunction of cs on an empty base (the synced
// stack, if any, is popped first).
func (s *Solver) CheckIsolated(cs []*sym.Term) Result {
	t00 := time.Now()
	defer func() { s.IOTime += time.Since(t00) }()
	s.sinceRestart++
	if s.sinceRestart > 3000 {
		s.Restart()
	}
	r := s.checkIsolated1(cs)
	if r == Unknown {
		r = s.fallback(cs, nil)
	}
	return r
}

func (s *Solver) checkIsolated1(cs []*sym.Term) Result {
	if len(s.stack) > 0 {
		s.send(fmt.Sprintf("(pop %d)", len(s.stack)))
		s.stack = s.stack[:0]
	}
	s.send("(push 1)")
	for _, c := range cs {
		s.assert(c)
	}
	r := s.checkSatT(s.FeasTimeoutMs)
	s.send("(pop 1)")
	return r
}

// CheckModel is Check followed, when sat, by reading the values of vars.
func (s *Solver) CheckModel(pc []*sym.Term, extra *sym.Term, vars []*sym.Term) (Result, map[string]uint64) {
	s.Sync(pc)
	s.send("(push 1)")
	if extra != nil {
		s.assert(extra)
	}
	vm := map[string]*sym.Term{}
	for _, v := range vars {
		vm[v.Name] = v
	}
	s.declare(vm)
	r := s.checkSat()
	var model map[string]uint64
	if r == Sat {
		model = map[string]uint64{}
		for _, v := range vars {
			s.send("(get-value (|" + v.Name + "|))")
			// answer: ((|name| #x..)) possibly multi-line
			txt := s.readLine()
			for strings.Count(txt, "(") != strings.Count(txt, ")") {
				txt += " " + s.readLine()
			}
			model[v.Name] = parseValue(txt)
		}
	}
	s.send("(pop 1)")
	return r, model
}

func parseValue(txt string) uint64 {
	// find last token before the closing parens
	txt = strings.TrimRight(txt, ") \t")
	i := strings.LastIndexAny(txt, " \t(")
	tok := txt[i+1:]
	switch {
	case tok == "true":
		return 1
	case tok == "false":
		return 0
	case strings.HasPrefix(tok, "#x"):
		v, _ := strconv.ParseUint(tok[2:], 16, 64)
		return v
	case strings.HasPrefix(tok, "#b"):
		v, _ := strconv.ParseUint(tok[2:], 2, 64)
		return v
	}
	// (_ bvN w) form: txt ends with "bvN w"
	f := strings.Fields(txt)
	for _, x := range f {
		if strings.HasPrefix(x, "bv") {
			v, err := strconv.ParseUint(x[2:], 10, 64)
			if err == nil {
				return v
			}
		}
	}
	return 0
}

// OneShot decides a standalone script (used for cross-checking).
func OneShot(name string, timeoutS int, script string) Result {
	a := argv(name, timeoutS)
	cmd := exec.Command(a[0], a[1:]...)
	cmd.Stdin = strings.NewReader(script)
	out, _ := cmd.CombinedOutput()
	r := Unknown
	for _, l := range strings.Split(string(out), "\n") {
		l = strings.TrimSpace(l)
		if strings.HasPrefix(l, "(error") {
			return Unknown
		}
		if l == "sat" {
			r = Sat
		} else if l == "unsat" {
			r = Unsat
		}
	}
	return r
}

// Script renders a standalone query pc ∧ extra.
func Script(pc []*sym.Term, extra *sym.Term) string {
	var sb strings.Builder
	vars := map[string]*sym.Term{}
	var asserts []string
	for _, t := range pc {
		asserts = append(asserts, "(assert "+sym.SMT(t, vars)+")")
	}
	if extra != nil {
		asserts = append(asserts, "(assert "+sym.SMT(extra, vars)+")")
	}
	for _, n := range sym.FreeVars(append(append([]*sym.Term{}, pc...), extraList(extra)...)...) {
		sb.WriteString(sym.DeclStr(vars[n]))
		sb.WriteByte('\n')
	}
	for _, a := range asserts {
		sb.WriteString(a)
		sb.WriteByte('\n')
	}
	sb.WriteString("(check-sat)\n")
	return sb.String()
}

func extraList(t *sym.Term) []*sym.Term {
	if t == nil {
		return nil
	}
	return []*sym.Term{t}
}
