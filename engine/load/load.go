// Package load builds the SSA program for /repo's working tree with the
// verification harnesses injected through a go/packages overlay.
package load

import (
	"fmt"
	"go/ast"
	"os"
	"path/filepath"
	"sort"
	"strings"

	"golang.org/x/tools/go/packages"
	"golang.org/x/tools/go/ssa"
	"golang.org/x/tools/go/ssa/ssautil"
)

const Module = "github.com/goreleaser/nfpm/v2"
const ApiPath = Module + "/internal/zzverif"
const ModelsPath = ApiPath + "/models"

type Loaded struct {
	Prog      *ssa.Program
	Pkgs      []*packages.Package
	Harnesses map[string]*ssa.Function // name -> function
	HarnessPk map[string]string        // name -> package dir relative to repo
	Redirects map[string]*ssa.Function
	Summarize map[string]bool
	Dropped   []string          // harness files that did not type-check
	Overlay   map[string]string // virtual path -> real path
	LoadS     float64
}

// CollectOverlay maps every file under harnessDir to the same relative path under repo.
func CollectOverlay(harnessDir, repo string) (map[string]string, error) {
	ov := map[string]string{}
	err := filepath.Walk(harnessDir, func(p string, info os.FileInfo, err error) error {
		if err != nil {
			return err
		}
		if info.IsDir() || !strings.HasSuffix(p, ".go") {
			return nil
		}
		rel, _ := filepath.Rel(harnessDir, p)
		ov[filepath.Join(repo, rel)] = p
		return nil
	})
	return ov, err
}

func Load(repo string, overlay map[string]string, wantPkgs []string) (*Loaded, error) {
	l := &Loaded{Overlay: overlay, Harnesses: map[string]*ssa.Function{}, HarnessPk: map[string]string{}, Redirects: map[string]*ssa.Function{}, Summarize: map[string]bool{}}
	dropped := map[string]bool{}
	for attempt := 0; attempt < 40; attempt++ {
		ovBytes := map[string][]byte{}
		dirs := map[string]bool{}
		for v, r := range overlay {
			if dropped[v] {
				continue
			}
			b, err := os.ReadFile(r)
			if err != nil {
				return nil, err
			}
			ovBytes[v] = b
			rel, _ := filepath.Rel(repo, filepath.Dir(v))
			dirs["./"+rel] = true
		}
		var patterns []string
		if wantPkgs != nil {
			for _, p := range wantPkgs {
				patterns = append(patterns, p)
			}
			patterns = append(patterns, "./internal/zzverif", "./internal/zzverif/models")
		} else {
			for d := range dirs {
				patterns = append(patterns, d)
			}
		}
		sort.Strings(patterns)
		cfg := &packages.Config{
			Mode:       packages.LoadAllSyntax,
			Dir:        repo,
			BuildFlags: []string{"-tags=verif", "-mod=mod"},
			Overlay:    ovBytes,
			Env:        append(os.Environ(), "GOFLAGS=-mod=mod", "GOPROXY=off", "GOSUMDB=off", "GOTOOLCHAIN=local", "CGO_ENABLED=0"),
		}
		pkgs, err := packages.Load(cfg, patterns...)
		if err != nil {
			return nil, err
		}
		// type errors located in overlay files -> drop that file and retry
		bad := map[string]bool{}
		var other []string
		packages.Visit(pkgs, nil, func(p *packages.Package) {
			for _, e := range p.Errors {
				file := e.Pos
				if i := strings.Index(file, ":"); i > 0 {
					file = file[:i]
				}
				if _, ok := overlay[file]; ok && !strings.Contains(file, "/internal/zzverif/") {
					bad[file] = true
				} else {
					other = append(other, e.Error())
				}
			}
		})
		if len(bad) > 0 {
			for f := range bad {
				dropped[f] = true
				l.Dropped = append(l.Dropped, f)
			}
			continue
		}
		if len(other) > 0 {
			return nil, fmt.Errorf("load errors: %s", strings.Join(other, "; "))
		}
		l.Pkgs = pkgs
		break
	}
	if l.Pkgs == nil {
		return nil, fmt.Errorf("could not load packages")
	}
	prog, _ := ssautil.AllPackages(l.Pkgs, ssa.InstantiateGenerics)
	prog.Build()
	l.Prog = prog
	for _, p := range l.Pkgs {
		sp := prog.Package(p.Types)
		if sp == nil {
			continue
		}
		rel := strings.TrimPrefix(strings.TrimPrefix(p.PkgPath, Module), "/")
		if rel == "" {
			rel = "."
		}
		for name, mem := range sp.Members {
			if fn, ok := mem.(*ssa.Function); ok && strings.HasPrefix(name, "Verif_") {
				l.Harnesses[name] = fn
				l.HarnessPk[name] = rel
			}
		}
		for _, f := range p.Syntax {
			for _, d := range f.Decls {
				fd, ok := d.(*ast.FuncDecl)
				if !ok || fd.Doc == nil {
					continue
				}
				for _, c := range fd.Doc.List {
					if strings.HasPrefix(c.Text, "//verif:summarize") {
						if fd.Recv == nil {
							if fn := sp.Func(fd.Name.Name); fn != nil {
								l.Summarize[fn.String()] = true
							}
						}
					}
				}
			}
		}
		if p.PkgPath == ModelsPath {
			for _, f := range p.Syntax {
				for _, d := range f.Decls {
					fd, ok := d.(*ast.FuncDecl)
					if !ok || fd.Doc == nil || fd.Recv != nil {
						continue
					}
					for _, c := range fd.Doc.List {
						if strings.HasPrefix(c.Text, "//verif:replace ") {
							target := strings.TrimSpace(strings.TrimPrefix(c.Text, "//verif:replace "))
							if fn := sp.Func(fd.Name.Name); fn != nil {
								l.Redirects[target] = fn
							}
						}
					}
				}
			}
		}
	}
	return l, nil
}
