package exec

import (
	"fmt"
	"go/types"
	"sort"
	"strconv"
	"strings"

	"golang.org/x/tools/go/ssa"

	"verif/engine/smt"
	"verif/engine/sym"
)

var intrinsics = map[string]Intrinsic{}

func reg(name string, f Intrinsic) { intrinsics[name] = f }

func (m *Machine) argStr(v Value) string {
	s, ok := concreteStr(v.(*Str))
	if !ok {
		m.notEnc("harness API string argument must be concrete")
	}
	return s
}

func (m *Machine) uniqueName(n string) string {
	k := m.nameCount[n]
	m.nameCount[n] = k + 1
	if k == 0 {
		return n
	}
	return fmt.Sprintf("%s#%d", n, k)
}

func (m *Machine) newInput(name, kind string, w int) *sym.Term {
	name = m.uniqueName(name)
	t := m.ctx.Var(name, w)
	m.inputs = append(m.inputs, Input{Name: name, Kind: kind, Terms: []*sym.Term{t}})
	return t
}

func (m *Machine) fresh(prefix string, w int) *sym.Term {
	m.nameCount["$"+prefix]++
	return m.ctx.Var(fmt.Sprintf("$%s.%d", prefix, m.nameCount["$"+prefix]), w)
}

func (m *Machine) nondetString(name string, n int) *Str {
	name = m.uniqueName(name)
	b := make([]*sym.Term, n)
	for i := range b {
		b[i] = m.ctx.Var(fmt.Sprintf("%s[%d]", name, i), 8)
	}
	m.inputs = append(m.inputs, Input{Name: name, Kind: "string", Terms: b, Val: n})
	return &Str{B: b}
}

func init() {
	// ---------------------------------------------------------- harness API
	reg("NondetBool", func(m *Machine, fn *ssa.Function, a []Value) Value {
		return m.newInput(m.argStr(a[0]), "bool", 0)
	})
	reg("NondetByte", func(m *Machine, fn *ssa.Function, a []Value) Value {
		return m.newInput(m.argStr(a[0]), "byte", 8)
	})
	reg("NondetU32", func(m *Machine, fn *ssa.Function, a []Value) Value {
		return m.newInput(m.argStr(a[0]), "u32", 32)
	})
	reg("NondetI64", func(m *Machine, fn *ssa.Function, a []Value) Value {
		return m.newInput(m.argStr(a[0]), "i64", 64)
	})
	reg("NondetU64", func(m *Machine, fn *ssa.Function, a []Value) Value {
		return m.newInput(m.argStr(a[0]), "u64", 64)
	})
	reg("NondetInt", func(m *Machine, fn *ssa.Function, a []Value) Value {
		return m.newInput(m.argStr(a[0]), "i64", 64)
	})
	reg("NondetString", func(m *Machine, fn *ssa.Function, a []Value) Value {
		max := m.concreteInt(a[1], "NondetString max")
		n := m.choice(max + 1)
		return m.nondetString(m.argStr(a[0]), n)
	})
	reg("NondetStringN", func(m *Machine, fn *ssa.Function, a []Value) Value {
		return m.nondetString(m.argStr(a[0]), m.concreteInt(a[1], "NondetStringN n"))
	})
	reg("NondetStringRange", func(m *Machine, fn *ssa.Function, a []Value) Value {
		lo := m.concreteInt(a[1], "lo")
		hi := m.concreteInt(a[2], "hi")
		n := lo + m.choice(hi-lo+1)
		return m.nondetString(m.argStr(a[0]), n)
	})
	reg("NondetBytes", func(m *Machine, fn *ssa.Function, a []Value) Value {
		max := m.concreteInt(a[1], "NondetBytes max")
		n := m.choice(max + 1)
		s := m.nondetString(m.argStr(a[0]), n)
		return m.makeByteSlice(s.B)
	})
	reg("NondetChoice", func(m *Machine, fn *ssa.Function, a []Value) Value {
		n := m.concreteInt(a[1], "NondetChoice n")
		k := m.choice(n)
		name := m.uniqueName(m.argStr(a[0]))
		m.inputs = append(m.inputs, Input{Name: name, Kind: "choice", Val: k})
		return m.ctx.BV(uint64(k), 64)
	})
	reg("Bound", func(m *Machine, fn *ssa.Function, a []Value) Value {
		key := m.argStr(a[0])
		q := m.concreteInt(a[1], "bound")
		t := m.concreteInt(a[2], "bound")
		v := q
		if m.P.Tier == "thorough" {
			v = t
		}
		m.Bounds[key] = v
		return m.ctx.BV(uint64(v), 64)
	})
	reg("Thorough", func(m *Machine, fn *ssa.Function, a []Value) Value {
		return m.ctx.Bool(m.P.Tier == "thorough")
	})
	reg("Symbolic", func(m *Machine, fn *ssa.Function, a []Value) Value { return m.ctx.True })
	reg("Assume", func(m *Machine, fn *ssa.Function, a []Value) Value {
		c := a[0].(*sym.Term)
		if k, v := m.implied(c); k {
			if !v {
				m.end("assume", "assumption false")
			}
			return nil
		}
		if !m.feasible(c) {
			m.end("assume", "assumption infeasible")
		}
		m.addPC(c)
		return nil
	})
	reg("Assert", func(m *Machine, fn *ssa.Function, a []Value) Value {
		m.assert(a[0].(*sym.Term), m.argStr(a[1]))
		return nil
	})
	reg("Reach", func(m *Machine, fn *ssa.Function, a []Value) Value {
		m.reached = append(m.reached, m.argStr(a[0]))
		return nil
	})
	reg("Observe", func(m *Machine, fn *ssa.Function, a []Value) Value {
		m.observed = append(m.observed, Observation{m.argStr(a[0]), a[1]})
		return nil
	})
	byteIn := func(m *Machine, c *sym.Term, spec string) *sym.Term {
		var alts []*sym.Term
		for i := 0; i < len(spec); i++ {
			if i+2 < len(spec) && spec[i+1] == '-' {
				alts = append(alts, m.ctx.And(m.ctx.Ule(m.ctx.BV(uint64(spec[i]), 8), c), m.ctx.Ule(c, m.ctx.BV(uint64(spec[i+2]), 8))))
				i += 2
				continue
			}
			alts = append(alts, m.ctx.Eq(c, m.ctx.BV(uint64(spec[i]), 8)))
		}
		return m.ctx.Or(alts...)
	}
	reg("ByteIn", func(m *Machine, fn *ssa.Function, a []Value) Value {
		return byteIn(m, a[0].(*sym.Term), m.argStr(a[1]))
	})
	reg("AllIn", func(m *Machine, fn *ssa.Function, a []Value) Value {
		spec := m.argStr(a[1])
		var cs []*sym.Term
		for _, b := range a[0].(*Str).B {
			cs = append(cs, byteIn(m, b, spec))
		}
		return m.ctx.And(cs...)
	})
	reg("Unsupported", func(m *Machine, fn *ssa.Function, a []Value) Value {
		m.notEnc("%s", m.argStr(a[0]))
		return nil
	})
	reg("AtReplayEnd", func(m *Machine, fn *ssa.Function, a []Value) Value { return nil })
	reg("Field", func(m *Machine, fn *ssa.Function, a []Value) Value {
		p := a[0].(Iface)
		name := m.argStr(a[1])
		pt, ok := p.T.Underlying().(*types.Pointer)
		if !ok {
			m.notEnc("zz.Field on non-pointer %s", p.T)
		}
		var pkg *types.Package
		if n, ok := pt.Elem().(*types.Named); ok {
			pkg = n.Obj().Pkg()
		}
		obj, index, _ := types.LookupFieldOrMethod(pt.Elem(), true, pkg, name)
		fv, ok := obj.(*types.Var)
		if !ok {
			m.notEnc("zz.Field: no field %s in %s", name, pt.Elem())
		}
		c := p.V.(Ptr).C
		if c == nil {
			m.goPanic("zz.Field on nil pointer")
		}
		for _, ix := range index {
			c = c.Kids[ix]
			if pp, ok := c.T.Underlying().(*types.Pointer); ok && len(index) > 1 && c.leaf {
				_ = pp
			}
		}
		val := m.load(c)
		if _, isI := fv.Type().Underlying().(*types.Interface); isI {
			return val
		}
		return Iface{T: fv.Type(), V: val}
	})
	reg("DependsOn", func(m *Machine, fn *ssa.Function, a []Value) Value {
		prefix := m.argStr(a[1])
		bs := m.bytesToStr(a[0].(Slice)).B
		for _, n := range sym.FreeVars(bs...) {
			if strings.HasPrefix(n, prefix) {
				return m.ctx.True
			}
		}
		return m.ctx.False
	})
	reg("Put64", func(m *Machine, fn *ssa.Function, a []Value) Value {
		sl := a[0].(Slice)
		off := m.concreteInt(a[1], "Put64 offset")
		val := a[2].(*sym.Term)
		for i := 0; i < 8; i++ {
			m.store(m.kid(sl.Arr, sl.Off+off+i), m.ctx.Extract(val, 63-8*i, 56-8*i))
		}
		return nil
	})
	reg("Get64", func(m *Machine, fn *ssa.Function, a []Value) Value {
		sl := a[0].(Slice)
		off := m.concreteInt(a[1], "Get64 offset")
		var acc *sym.Term
		for i := 0; i < 8; i++ {
			b := m.load(m.kid(sl.Arr, sl.Off+off+i)).(*sym.Term)
			if acc == nil {
				acc = b
			} else {
				acc = m.ctx.Concat(acc, b)
			}
		}
		return acc
	})
	reg("PermuteMaps", func(m *Machine, fn *ssa.Function, a []Value) Value {
		m.permuteMaps = a[0].(*sym.Term).IsTrue()
		return nil
	})
	reg("Fresh", func(m *Machine, fn *ssa.Function, a []Value) Value {
		return m.fresh(m.argStr(a[0]), 8)
	})
	reg("FreshBytes", func(m *Machine, fn *ssa.Function, a []Value) Value {
		n := m.concreteInt(a[1], "FreshBytes n")
		p := m.argStr(a[0])
		b := make([]*sym.Term, n)
		for i := range b {
			b[i] = m.fresh(p, 8)
		}
		return m.makeByteSlice(b)
	})
	reg("Hash", func(m *Machine, fn *ssa.Function, a []Value) Value {
		kind := m.argStr(a[0])
		in := m.bytesToStr(a[1].(Slice)).B
		n := m.concreteInt(a[2], "Hash n")
		return m.makeByteSlice(m.uninterpHash(kind, in, n))
	})
	reg("IsConcrete", func(m *Machine, fn *ssa.Function, a []Value) Value {
		_, ok := concreteStr(a[0].(*Str))
		return m.ctx.Bool(ok)
	})
	reg("SameObject", func(m *Machine, fn *ssa.Function, a []Value) Value {
		x, y := a[0].(Iface), a[1].(Iface)
		return m.valueEq(x, y)
	})

	// ---------------------------------------------------------- strings.Builder
	reg("(*strings.Builder).copyCheck", func(m *Machine, fn *ssa.Function, a []Value) Value { return nil })
	reg("(*strings.Builder).grow", func(m *Machine, fn *ssa.Function, a []Value) Value { return nil })
	reg("(*strings.Builder).Grow", func(m *Machine, fn *ssa.Function, a []Value) Value { return nil })
	reg("(*strings.Builder).String", func(m *Machine, fn *ssa.Function, a []Value) Value {
		p := a[0].(Ptr)
		return m.bytesToStr(m.load(p.C.Kids[1]).(Slice))
	})
	for _, n := range []string{"internal/stringslite.Clone", "strings.Clone"} {
		reg(n, func(m *Machine, fn *ssa.Function, a []Value) Value { return a[0] })
	}

	// ---------------------------------------------------------- bytealg & friends
	indexByte := func(m *Machine, hay []*sym.Term, c *sym.Term) Value {
		for i, b := range hay {
			if m.branch(m.ctx.Eq(b, c)) {
				return m.ctx.BV(uint64(i), 64)
			}
		}
		return m.ctx.BV(^uint64(0), 64)
	}
	index := func(m *Machine, hay, sub []*sym.Term) Value {
		n := len(sub)
		for i := 0; i+n <= len(hay); i++ {
			if m.branch(m.valueEq(&Str{B: hay[i : i+n]}, &Str{B: sub})) {
				return m.ctx.BV(uint64(i), 64)
			}
		}
		return m.ctx.BV(^uint64(0), 64)
	}
	lastIndex := func(m *Machine, hay, sub []*sym.Term) Value {
		n := len(sub)
		for i := len(hay) - n; i >= 0; i-- {
			if m.branch(m.valueEq(&Str{B: hay[i : i+n]}, &Str{B: sub})) {
				return m.ctx.BV(uint64(i), 64)
			}
		}
		return m.ctx.BV(^uint64(0), 64)
	}
	count := func(m *Machine, hay, sub []*sym.Term) Value {
		n := len(sub)
		if n == 0 {
			m.notEnc("Count with empty separator")
		}
		cnt := 0
		for i := 0; i+n <= len(hay); {
			if m.branch(m.valueEq(&Str{B: hay[i : i+n]}, &Str{B: sub})) {
				cnt++
				i += n
			} else {
				i++
			}
		}
		return m.ctx.BV(uint64(cnt), 64)
	}
	sb := func(m *Machine, v Value) []*sym.Term {
		switch x := v.(type) {
		case *Str:
			return x.B
		case Slice:
			return m.bytesToStr(x).B
		}
		panic("sb")
	}
	for _, n := range []string{"internal/bytealg.IndexByteString", "internal/bytealg.IndexByte", "strings.IndexByte", "bytes.IndexByte"} {
		reg(n, func(m *Machine, fn *ssa.Function, a []Value) Value {
			return indexByte(m, sb(m, a[0]), a[1].(*sym.Term))
		})
	}
	for _, n := range []string{"internal/bytealg.IndexString", "internal/bytealg.Index", "strings.Index", "bytes.Index"} {
		reg(n, func(m *Machine, fn *ssa.Function, a []Value) Value { return index(m, sb(m, a[0]), sb(m, a[1])) })
	}
	for _, n := range []string{"strings.LastIndex", "bytes.LastIndex"} {
		reg(n, func(m *Machine, fn *ssa.Function, a []Value) Value { return lastIndex(m, sb(m, a[0]), sb(m, a[1])) })
	}
	reg("strings.LastIndexByte", func(m *Machine, fn *ssa.Function, a []Value) Value {
		return lastIndex(m, sb(m, a[0]), []*sym.Term{a[1].(*sym.Term)})
	})
	for _, n := range []string{"internal/bytealg.CountString", "internal/bytealg.Count"} {
		reg(n, func(m *Machine, fn *ssa.Function, a []Value) Value {
			return count(m, sb(m, a[0]), []*sym.Term{a[1].(*sym.Term)})
		})
	}
	for _, n := range []string{"strings.Count", "bytes.Count"} {
		reg(n, func(m *Machine, fn *ssa.Function, a []Value) Value {
			sub := sb(m, a[1])
			if len(sub) == 0 {
				m.notEnc("Count with empty separator")
			}
			return count(m, sb(m, a[0]), sub)
		})
	}
	for _, n := range []string{"bytes.Equal", "internal/bytealg.Equal"} {
		reg(n, func(m *Machine, fn *ssa.Function, a []Value) Value {
			return m.valueEq(&Str{B: sb(m, a[0])}, &Str{B: sb(m, a[1])})
		})
	}
	reg("internal/bytealg.MakeNoZero", func(m *Machine, fn *ssa.Function, a []Value) Value {
		n := m.concreteInt(a[0], "MakeNoZero")
		return Slice{Arr: m.newArrayCell(types.Typ[types.Uint8], n), Len: n, Cap: n}
	})
	reg("strings.Compare", func(m *Machine, fn *ssa.Function, a []Value) Value {
		x, y := a[0].(*Str), a[1].(*Str)
		lt := m.strLess(x, y, false)
		eq := m.valueEq(x, y)
		c := m.ctx
		return c.Ite(eq, c.BV(0, 64), c.Ite(lt, c.BV(^uint64(0), 64), c.BV(1, 64)))
	})
	reg("internal/bytealg.CompareString", intrinsics["strings.Compare"])

	// ---------------------------------------------------------- sync / atomic
	nop := func(m *Machine, fn *ssa.Function, a []Value) Value { return nil }
	for _, n := range []string{"(*sync.Mutex).Lock", "(*sync.RWMutex).Lock"} {
		reg(n, func(m *Machine, fn *ssa.Function, a []Value) Value { m.syncDepth++; return nil })
	}
	for _, n := range []string{"(*sync.Mutex).Unlock", "(*sync.RWMutex).Unlock"} {
		reg(n, func(m *Machine, fn *ssa.Function, a []Value) Value {
			if m.syncDepth > 0 {
				m.syncDepth--
			}
			return nil
		})
	}
	for _, n := range []string{"(*sync.RWMutex).RLock", "(*sync.RWMutex).RUnlock", "runtime.KeepAlive", "runtime.SetFinalizer", "runtime.GC",
		"(*sync.WaitGroup).Add", "(*sync.WaitGroup).Done", "(*sync.WaitGroup).Wait"} {
		reg(n, nop)
	}
	// sync.Pool, sequentially: Get hands out the object put last (or New()); an
	// object that has been Put belongs to the pool: every later access to memory
	// reachable from it (until a Get hands it out again) is counted as a
	// use-after-put (another goroutine may own the object by then).
	poolKey := func(p Ptr) string { return fmt.Sprintf("pool:%d", p.C.ID) }
	reg("(*sync.Pool).Put", func(m *Machine, fn *ssa.Function, a []Value) Value {
		p := a[0].(Ptr)
		if iv, ok := a[1].(Iface); ok && iv.T == nil {
			return nil
		}
		lst, _ := m.ext[poolKey(p)].([]Value)
		m.ext[poolKey(p)] = append(lst, a[1])
		m.colourValue(a[1], "$pooled", map[*Cell]bool{})
		if m.readHook == nil {
			m.readHook = func(c *Cell) {
				if c.Col == "$pooled" {
					m.pooledAccess++
					if len(m.changedWhere) < 8 && len(m.stack) > 0 {
						m.changedWhere = append(m.changedWhere, m.stack[len(m.stack)-1]+" reads an object after sync.Pool.Put")
					}
				}
			}
		}
		return nil
	})
	reg("(*sync.Pool).Get", func(m *Machine, fn *ssa.Function, a []Value) Value {
		p := a[0].(Ptr)
		if lst, _ := m.ext[poolKey(p)].([]Value); len(lst) > 0 {
			x := lst[len(lst)-1]
			m.ext[poolKey(p)] = lst[:len(lst)-1]
			m.colourValue(x, "", map[*Cell]bool{})
			return x
		}
		// Pool.New, if set
		st := p.C.T.Underlying().(*types.Struct)
		for i := 0; i < st.NumFields(); i++ {
			if st.Field(i).Name() == "New" {
				if cl, ok := m.load(p.C.Kids[i]).(*Closure); ok && cl != nil {
					return m.CallClosure(cl)
				}
			}
		}
		return Iface{}
	})
	reg("(*sync.Once).Do", func(m *Machine, fn *ssa.Function, a []Value) Value {
		p := a[0].(Ptr)
		key := fmt.Sprintf("once:%d", p.C.ID)
		if m.ext[key] == nil {
			m.ext[key] = true
			m.syncDepth++
			m.CallClosure(a[1].(*Closure))
			m.syncDepth--
		}
		return nil
	})
	reg("sync/atomic.AddUint64", func(m *Machine, fn *ssa.Function, a []Value) Value {
		p := a[0].(Ptr)
		v := m.ctx.Bin(sym.OpAdd, m.load(p.C).(*sym.Term), a[1].(*sym.Term))
		m.syncDepth++
		m.store(p.C, v)
		m.syncDepth--
		return v
	})
	reg("sync/atomic.AddInt64", intrinsics["sync/atomic.AddUint64"])
	reg("sync/atomic.AddInt32", intrinsics["sync/atomic.AddUint64"])
	reg("sync/atomic.AddUint32", intrinsics["sync/atomic.AddUint64"])
	for _, n := range []string{"sync/atomic.LoadUint64", "sync/atomic.LoadInt64", "sync/atomic.LoadInt32", "sync/atomic.LoadUint32", "sync/atomic.LoadPointer"} {
		reg(n, func(m *Machine, fn *ssa.Function, a []Value) Value { return m.load(a[0].(Ptr).C) })
	}
	for _, n := range []string{"sync/atomic.StoreUint64", "sync/atomic.StoreInt64", "sync/atomic.StoreInt32", "sync/atomic.StoreUint32"} {
		reg(n, func(m *Machine, fn *ssa.Function, a []Value) Value {
			m.syncDepth++
			m.store(a[0].(Ptr).C, a[1])
			m.syncDepth--
			return nil
		})
	}

	// ---------------------------------------------------------- errors
	reg("errors.Is", func(m *Machine, fn *ssa.Function, a []Value) Value {
		return m.ctx.Bool(m.errorsIs(a[0].(Iface), a[1].(Iface)))
	})
	reg("errors.As", func(m *Machine, fn *ssa.Function, a []Value) Value {
		return m.ctx.Bool(m.errorsAs(a[0].(Iface), a[1].(Iface)))
	})

	// ---------------------------------------------------------- fmt
	reg("fmt.Sprintf", func(m *Machine, fn *ssa.Function, a []Value) Value {
		return m.format(m.argFormat(a[0]), m.sliceElems(a[1].(Slice)))
	})
	reg("fmt.Sprint", func(m *Machine, fn *ssa.Function, a []Value) Value {
		var out []*sym.Term
		for _, v := range m.sliceElems(a[0].(Slice)) {
			out = append(out, m.fmtArg('v', v.(Iface)).B...)
		}
		return &Str{B: out}
	})
	reg("fmt.Errorf", func(m *Machine, fn *ssa.Function, a []Value) Value {
		return m.errorf(m.argFormat(a[0]), m.sliceElems(a[1].(Slice)))
	})
	reg("fmt.Fprintf", func(m *Machine, fn *ssa.Function, a []Value) Value {
		s := m.format(m.argFormat(a[1]), m.sliceElems(a[2].(Slice)))
		return m.CallMethod(a[0].(Iface), "Write", m.makeByteSlice(s.B))
	})
	reg("fmt.Fprint", func(m *Machine, fn *ssa.Function, a []Value) Value {
		var out []*sym.Term
		for _, v := range m.sliceElems(a[1].(Slice)) {
			out = append(out, m.fmtArg('v', v.(Iface)).B...)
		}
		return m.CallMethod(a[0].(Iface), "Write", m.makeByteSlice(out))
	})
	reg("fmt.Fprintln", func(m *Machine, fn *ssa.Function, a []Value) Value {
		var out []*sym.Term
		for i, v := range m.sliceElems(a[1].(Slice)) {
			if i > 0 {
				out = append(out, m.ctx.BV(' ', 8))
			}
			out = append(out, m.fmtArg('v', v.(Iface)).B...)
		}
		out = append(out, m.ctx.BV('\n', 8))
		return m.CallMethod(a[0].(Iface), "Write", m.makeByteSlice(out))
	})
	printNop := func(m *Machine, fn *ssa.Function, a []Value) Value {
		return Tuple{m.ctx.BV(0, 64), Iface{}}
	}
	reg("fmt.Printf", printNop)
	reg("fmt.Println", printNop)
	reg("fmt.Print", printNop)

	// ---------------------------------------------------------- strconv
	reg("strconv.Itoa", func(m *Machine, fn *ssa.Function, a []Value) Value {
		return &Str{B: m.decimal(a[0].(*sym.Term), true)}
	})
	reg("strconv.FormatInt", func(m *Machine, fn *ssa.Function, a []Value) Value {
		base := m.concreteInt(a[1], "FormatInt base")
		return &Str{B: m.formatBase(a[0].(*sym.Term), true, base)}
	})
	reg("strconv.FormatUint", func(m *Machine, fn *ssa.Function, a []Value) Value {
		base := m.concreteInt(a[1], "FormatUint base")
		return &Str{B: m.formatBase(a[0].(*sym.Term), false, base)}
	})

	// ---------------------------------------------------------- unicode
	reg("unicode.IsSpace", func(m *Machine, fn *ssa.Function, a []Value) Value {
		r := a[0].(*sym.Term)
		c := m.ctx
		eq := func(v uint64) *sym.Term { return c.Eq(r, c.BV(v, 32)) }
		rng := func(lo, hi uint64) *sym.Term { return c.And(c.Ule(c.BV(lo, 32), r), c.Ule(r, c.BV(hi, 32))) }
		return c.Or(rng(9, 13), eq(0x20), eq(0x85), eq(0xA0), eq(0x1680), rng(0x2000, 0x200a), eq(0x2028), eq(0x2029), eq(0x202f), eq(0x205f), eq(0x3000))
	})

	// ---------------------------------------------------------- time
	// the number of CPUs the process may use: a fresh symbolic value per read
	cpus := func(m *Machine, fn *ssa.Function, a []Value) Value {
		m.nameCount["$cpus"]++
		n := m.ctx.Var(fmt.Sprintf("$cpus.%d", m.nameCount["$cpus"]), 64)
		m.addPC(m.ctx.And(m.ctx.Ule(m.ctx.BV(1, 64), n), m.ctx.Ule(n, m.ctx.BV(64, 64))))
		return n
	}
	// regexp is not executed: a compiled expression is an opaque non-nil object
	// (package initialisers of modelled libraries compile theirs; using one is not encodable)
	compiled := func(m *Machine, fn *ssa.Function, a []Value) Value {
		pt := fn.Signature.Results().At(0).Type().(*types.Pointer)
		p := Ptr{C: m.newCell(pt.Elem())}
		if fn.Signature.Results().Len() == 2 {
			return Tuple{p, Iface{}}
		}
		return p
	}
	reg("regexp.MustCompile", compiled)
	reg("regexp.Compile", compiled)
	reg("runtime.GOMAXPROCS", cpus)
	reg("runtime.NumCPU", cpus)
	reg("time.Now", func(m *Machine, fn *ssa.Function, a []Value) Value {
		// wall clock reading with monotonic bit set, as the real Now returns
		m.nameCount["$now"]++
		k := m.nameCount["$now"]
		sec := m.ctx.Var(fmt.Sprintf("$now.%d.sec", k), 64)
		// constrain to a plausible range: 2020..2100 in internal seconds
		c := m.ctx
		const unixToInternal = (1969*365 + 1969/4 - 1969/100 + 1969/400) * 86400
		lo := c.BV(uint64(1577836800+unixToInternal), 64)
		hi := c.BV(uint64(4102444800+unixToInternal), 64)
		m.addPC(c.And(c.Ule(lo, sec), c.Ule(sec, hi)))
		m.clockReads = append(m.clockReads, sec)
		st := fn.Signature.Results().At(0).Type().Underlying().(*types.Struct)
		tv := m.zero(st).(*Struct)
		f := append([]Value(nil), tv.F...)
		f[0] = c.BV(0, 64) // wall: no monotonic, nsec 0
		f[1] = sec         // ext: seconds since year 1
		// loc: Local
		if lp := m.findGlobal("time", "localLoc"); lp != nil {
			f[2] = Ptr{lp}
		}
		return &Struct{F: f}
	})
}

func (m *Machine) findGlobal(pkg, name string) *Cell {
	for _, p := range m.P.Prog.AllPackages() {
		if p.Pkg.Path() == pkg {
			if g, ok := p.Members[name].(*ssa.Global); ok {
				return m.global(g)
			}
		}
	}
	return nil
}

// argFormat returns the format string. Bytes that are symbolic are decided one
// by one: "is it '%'?" is a fork; a symbolic '%' followed by a symbolic byte is
// followed only into the "%%" case (the other verbs end the path as not
// encodable), which is enough to expose data used as a format string.
func (m *Machine) argFormat(v Value) string {
	st := v.(*Str)
	m.fmtSymBytes = m.fmtSymBytes[:0]
	if s, ok := concreteStr(st); ok {
		return s
	}
	pct := m.ctx.BV('%', 8)
	out := make([]byte, 0, len(st.B))
	for i := 0; i < len(st.B); i++ {
		b := st.B[i]
		if b.IsConst() {
			out = append(out, byte(b.Val))
			continue
		}
		if !m.branch(m.ctx.Eq(b, pct)) {
			// an ordinary data byte: keep it symbolic through a placeholder
			out = append(out, 0x01)
			m.fmtSymBytes = append(m.fmtSymBytes, b)
			continue
		}
		if i+1 >= len(st.B) {
			out = append(out, '%')
			continue
		}
		nx := st.B[i+1]
		if nx.IsConst() {
			out = append(out, '%')
			continue
		}
		if m.branch(m.ctx.Eq(nx, pct)) {
			out = append(out, '%', '%')
			i++
			continue
		}
		m.notEnc("symbolic verb in a symbolic format string")
	}
	return string(out)
}

// ---------------------------------------------------------------- assertions

func (m *Machine) inputVars() []*sym.Term {
	var vs []*sym.Term
	for _, in := range m.inputs {
		vs = append(vs, in.Terms...)
	}
	return vs
}

func (m *Machine) assert(cond *sym.Term, id string) {
	m.asserts = append(m.asserts, AssertEval{id, cond})
	ag := m.Agg[id]
	if ag == nil {
		ag = &OblAgg{}
		m.Agg[id] = ag
	}
	ag.Total++
	if cond.IsTrue() {
		ag.Trivial++
		return
	}
	if k, v := m.implied(cond); k && v {
		ag.Trivial++
		return
	}
	ob := &Obligation{Harness: m.Harness, ID: id, PCSize: len(m.pc)}
	defer func() {
		ag.Ms += ob.Ms
		switch ob.Verdict {
		case "discharged":
			ag.Discharged++
			if ob.Script != "" && len(m.Obligations) < 400 {
				m.Obligations = append(m.Obligations, ob)
			}
		case "violated":
			ag.Violated++
			if ag.Violated <= 50 {
				ob.Path = append([]int(nil), m.trace[:m.pos]...)
				m.Obligations = append(m.Obligations, ob)
			}
		case "unknown":
			ag.Unknown++
		}
	}()
	neg := m.ctx.Not(cond)
	m.Stats.AssertQueries++
	t0 := m.solver.Time
	cs := m.closure(neg)
	key := "A" + queryKey(cs, neg)
	var r smt.Result
	var model map[string]uint64
	if cached, ok := m.acache[key]; ok {
		r = cached
		m.Stats.CacheHits++
	} else {
		r = m.solver.CheckIsolated(append(append([]*sym.Term{}, cs...), neg))
		if len(m.acache) > 300_000 {
			m.acache = map[string]smt.Result{}
		}
		m.acache[key] = r
	}
	if r == smt.Sat {
		r, model = m.solver.CheckModel(m.pc, neg, m.inputVars())
	}
	ob.Ms = float64((m.solver.Time - t0).Microseconds()) / 1000
	if m.WantScripts && len(m.Obligations) < 400 {
		ob.Script = smt.Script(cs, neg)
	}
	switch r {
	case smt.Unsat:
		ob.Verdict = "discharged"
	case smt.Unknown:
		ob.Verdict = "unknown"
		m.Stats.Unknown++
	case smt.Sat:
		ob.Verdict = "violated"
		ob.Model = model
		ob.Inputs = append([]Input(nil), m.inputs...)
		ob.Script = smt.Script(m.pc, neg)
	}
	// continue the path under the assertion (so later asserts are independent)
	if r != smt.Unsat {
		if !m.feasible(cond) {
			m.end("assume", "path dies after violated assertion "+id)
		}
	}
	m.addPC(cond)
}

// ---------------------------------------------------------------- errors.Is/As

func (m *Machine) unwrapOne(e Iface) (Iface, []Iface, bool) {
	if e.T == nil {
		return Iface{}, nil, false
	}
	ms := m.P.Prog.MethodSets.MethodSet(e.T)
	for i := 0; i < ms.Len(); i++ {
		f := ms.At(i).Obj().(*types.Func)
		if f.Name() != "Unwrap" {
			continue
		}
		sig := f.Type().(*types.Signature)
		if sig.Params().Len() != 0 || sig.Results().Len() != 1 {
			continue
		}
		res := m.callFn(m.P.Prog.MethodValue(ms.At(i)), []Value{e.V}, nil)
		if _, ok := sig.Results().At(0).Type().Underlying().(*types.Slice); ok {
			var out []Iface
			for _, v := range m.sliceElems(res.(Slice)) {
				out = append(out, v.(Iface))
			}
			return Iface{}, out, true
		}
		return res.(Iface), nil, true
	}
	return Iface{}, nil, false
}

func (m *Machine) errorsIs(err, target Iface) bool {
	if err.T == nil || target.T == nil {
		return err.T == nil && target.T == nil
	}
	for {
		if types.Identical(err.T, target.T) && types.Comparable(err.T) {
			if m.branch(m.valueEq(err.V, target.V)) {
				return true
			}
		}
		if m.hasMethod(err.T, "Is") {
			r := m.CallMethod(err, "Is", target)
			if t, ok := r.(*sym.Term); ok && m.branch(t) {
				return true
			}
		}
		one, many, ok := m.unwrapOne(err)
		if !ok {
			return false
		}
		if many != nil {
			for _, e := range many {
				if e.T != nil && m.errorsIs(e, target) {
					return true
				}
			}
			return false
		}
		if one.T == nil {
			return false
		}
		err = one
	}
}

func (m *Machine) errorsAs(err, target Iface) bool {
	if target.T == nil {
		m.goPanic("errors: target cannot be nil")
	}
	pt, ok := target.T.Underlying().(*types.Pointer)
	if !ok {
		m.goPanic("errors: target must be a non-nil pointer")
	}
	tt := pt.Elem()
	cell := target.V.(Ptr).C
	_, targetIsIface := tt.Underlying().(*types.Interface)
	for err.T != nil {
		if types.AssignableTo(err.T, tt) {
			if targetIsIface {
				m.store(cell, err)
			} else {
				m.store(cell, err.V)
			}
			return true
		}
		if m.hasMethod(err.T, "As") {
			r := m.CallMethod(err, "As", target)
			if t, ok := r.(*sym.Term); ok && m.branch(t) {
				return true
			}
		}
		one, many, ok := m.unwrapOne(err)
		if !ok {
			return false
		}
		if many != nil {
			for _, e := range many {
				if e.T != nil && m.errorsAs(e, target) {
					return true
				}
			}
			return false
		}
		err = one
	}
	return false
}

// ---------------------------------------------------------------- hashing

func (m *Machine) uninterpHash(kind string, in []*sym.Term, n int) []*sym.Term {
	c := m.ctx
	for _, h := range m.hashApps {
		if h.kind == kind && len(h.in) == len(in) {
			same := true
			for i := range in {
				if h.in[i] != in[i] {
					same = false
					break
				}
			}
			if same {
				return h.out
			}
		}
	}
	out := make([]*sym.Term, n)
	k := len(m.hashApps)
	for i := range out {
		out[i] = c.Var(fmt.Sprintf("$%s.%d[%d]", kind, k, i), 8)
	}
	// functional consistency with earlier applications (Ackermann)
	for _, h := range m.hashApps {
		if h.kind != kind || len(h.in) != len(in) {
			continue
		}
		ineq := m.valueEq(&Str{B: h.in}, &Str{B: in})
		if ineq.IsFalse() {
			continue
		}
		outeq := m.valueEq(&Str{B: h.out}, &Str{B: out})
		m.addPC(c.Implies(ineq, outeq))
	}
	m.hashApps = append(m.hashApps, hashApp{kind, in, out})
	return out
}

// ---------------------------------------------------------------- formatting

func (m *Machine) digitsBase2k(t *sym.Term, bitsPer int) []*sym.Term {
	// unsigned; forks on the number of significant digits
	c := m.ctx
	w := t.Width
	nd := (w + bitsPer - 1) / bitsPer
	// find number of digits
	conds := make([]*sym.Term, 0, nd)
	for k := 1; k <= nd; k++ {
		if k*bitsPer >= w {
			conds = append(conds, c.True)
			break
		}
		conds = append(conds, c.Ult(t, c.BV(uint64(1)<<uint(k*bitsPer), w)))
	}
	// make them exclusive: first true wins
	excl := make([]*sym.Term, len(conds))
	var prevNot []*sym.Term
	for i, cd := range conds {
		excl[i] = c.And(append(append([]*sym.Term{}, prevNot...), cd)...)
		prevNot = append(prevNot, c.Not(cd))
	}
	k := m.fork(excl) + 1
	out := make([]*sym.Term, k)
	for i := 0; i < k; i++ {
		lo := (k - 1 - i) * bitsPer
		hi := lo + bitsPer - 1
		if hi >= w {
			hi = w - 1
		}
		d := c.Zext(c.Extract(t, hi, lo), 8)
		// digit char: d<10 ? '0'+d : 'a'+d-10
		out[i] = c.Ite(c.Ult(d, c.BV(10, 8)), c.Bin(sym.OpAdd, d, c.BV('0', 8)), c.Bin(sym.OpAdd, d, c.BV('a'-10, 8)))
	}
	return out
}

// MaxDecimalDigits bounds decimal rendering of symbolic integers.
const MaxDecimalDigits = 10

func (m *Machine) decimal(t *sym.Term, signedT bool) []*sym.Term {
	c := m.ctx
	if t.IsConst() {
		var s string
		if signedT {
			s = fmt.Sprintf("%d", t.SignedVal())
		} else {
			s = fmt.Sprintf("%d", t.Val)
		}
		return m.str(s).B
	}
	w := t.Width
	neg := false
	if signedT {
		isNeg := c.Slt(t, c.BV(0, w))
		if m.branch(isNeg) {
			neg = true
			t = c.Neg(t)
		}
	}
	// number of digits
	var conds []*sym.Term
	p := uint64(1)
	for k := 1; k <= MaxDecimalDigits; k++ {
		p *= 10
		if w < 64 && p > (uint64(1)<<uint(w)) {
			conds = append(conds, c.True)
			break
		}
		conds = append(conds, c.Ult(t, c.BV(p, w)))
	}
	excl := make([]*sym.Term, len(conds))
	var prevNot []*sym.Term
	for i, cd := range conds {
		excl[i] = c.And(append(append([]*sym.Term{}, prevNot...), cd)...)
		prevNot = append(prevNot, c.Not(cd))
	}
	if !conds[len(conds)-1].IsTrue() {
		excl = append(excl, c.And(prevNot...)) // out of bound
	}
	k := m.fork(excl)
	if k >= len(conds) {
		m.end("assume", fmt.Sprintf("bound: decimal rendering limited to %d digits", MaxDecimalDigits))
	}
	nd := k + 1
	memoKey := fmt.Sprintf("dec:%d:%d", t.ID, nd)
	if r, ok := m.ext[memoKey]; ok {
		ds := r.([]*sym.Term)
		out := make([]*sym.Term, 0, nd+1)
		if neg {
			out = append(out, c.BV('-', 8))
		}
		return append(out, ds...)
	}
	// digit variables; the equation is stated in the narrowest width that holds 10^nd
	bits := 4
	for (uint64(1) << uint(bits)) < p10(nd) {
		bits++
	}
	if bits > w {
		bits = w
	}
	if bits < 8 {
		bits = 8
		if bits > w {
			bits = w
		}
	}
	low := c.Extract(t, bits-1, 0)
	if bits < w {
		m.addPC(c.Eq(c.Extract(t, w-1, bits), c.BV(0, w-bits)))
	}
	m.nameCount["$dec"]++
	id := m.nameCount["$dec"]
	ds := make([]*sym.Term, nd)
	sum := c.BV(0, bits)
	pw := uint64(1)
	for i := nd - 1; i >= 0; i-- {
		d := c.Var(fmt.Sprintf("$dec.%d[%d]", id, i), 8)
		ds[i] = d
		m.addPC(c.Ule(d, c.BV(9, 8)))
		var dz *sym.Term
		if bits >= 8 {
			dz = c.Zext(d, bits)
		} else {
			dz = c.Extract(d, bits-1, 0)
		}
		sum = c.Bin(sym.OpAdd, sum, c.Bin(sym.OpMul, dz, c.BV(pw, bits)))
		pw *= 10
	}
	m.addPC(c.Eq(sum, low))
	if nd > 1 {
		m.addPC(c.Not(c.Eq(ds[0], c.BV(0, 8))))
	}
	chars := make([]*sym.Term, nd)
	for i, d := range ds {
		chars[i] = c.Bin(sym.OpAdd, d, c.BV('0', 8))
	}
	m.ext[memoKey] = chars
	out := make([]*sym.Term, 0, nd+1)
	if neg {
		out = append(out, c.BV('-', 8))
	}
	return append(out, chars...)
}

func p10(n int) uint64 {
	p := uint64(1)
	for i := 0; i < n; i++ {
		p *= 10
	}
	return p
}

func (m *Machine) formatBase(t *sym.Term, signedT bool, base int) []*sym.Term {
	switch base {
	case 10:
		return m.decimal(t, signedT)
	case 8, 16, 2:
		if t.IsConst() {
			if signedT {
				return m.str(fmtInt(t.SignedVal(), base)).B
			}
			return m.str(fmtUint(t.Val, base)).B
		}
		bits := map[int]int{2: 1, 8: 3, 16: 4}[base]
		neg := false
		if signedT {
			if m.branch(m.ctx.Slt(t, m.ctx.BV(0, t.Width))) {
				neg = true
				t = m.ctx.Neg(t)
			}
		}
		d := m.digitsBase2k(t, bits)
		if neg {
			d = append([]*sym.Term{m.ctx.BV('-', 8)}, d...)
		}
		return d
	}
	m.notEnc("format base %d", base)
	return nil
}

func fmtInt(v int64, base int) string {
	switch base {
	case 8:
		return fmt.Sprintf("%o", v)
	case 16:
		return fmt.Sprintf("%x", v)
	case 2:
		return fmt.Sprintf("%b", v)
	}
	return fmt.Sprintf("%d", v)
}

func fmtUint(v uint64, base int) string {
	switch base {
	case 8:
		return fmt.Sprintf("%o", v)
	case 16:
		return fmt.Sprintf("%x", v)
	case 2:
		return fmt.Sprintf("%b", v)
	}
	return fmt.Sprintf("%d", v)
}

func (m *Machine) hexBytes(b []*sym.Term) []*sym.Term {
	// exactly what indexing the table "0123456789abcdef" with v>>4 and v&0x0f
	// produces when that Go code is executed from SSA, so that real code and
	// reference code yield syntactically identical terms
	c := m.ctx
	table := m.str("0123456789abcdef").B
	out := make([]*sym.Term, 0, 2*len(b))
	for _, x := range b {
		hi := c.Zext(c.Bin(sym.OpLshr, x, c.BV(4, 8)), 64)
		lo := c.Zext(c.Bin(sym.OpBvAnd, x, c.BV(0x0f, 8)), 64)
		if hi.IsConst() {
			out = append(out, table[hi.Val])
		} else {
			out = append(out, m.iteChain(hi, table))
		}
		if lo.IsConst() {
			out = append(out, table[lo.Val])
		} else {
			out = append(out, m.iteChain(lo, table))
		}
	}
	return out
}

// fmtArg renders one operand under a verb.
func (m *Machine) fmtArg(verb byte, a Iface) *Str {
	if a.T == nil {
		return m.str("<nil>")
	}
	// error / Stringer first for %s %v %w
	if verb == 's' || verb == 'v' || verb == 'w' || verb == 'q' {
		if m.hasMethod(a.T, "Error") {
			if p, ok := a.V.(Ptr); ok && p.C == nil {
				return m.str("<nil>")
			}
			return m.CallMethod(a, "Error").(*Str)
		}
		if m.hasMethod(a.T, "String") {
			if p, ok := a.V.(Ptr); ok && p.C == nil {
				return m.str("<nil>")
			}
			return m.CallMethod(a, "String").(*Str)
		}
	}
	switch v := a.V.(type) {
	case *Str:
		switch verb {
		case 's', 'v', 'w':
			return v
		case 'x':
			return &Str{B: m.hexBytes(v.B)}
		case 'q':
			// simplified quoting (exact only for printable ASCII without quotes/backslashes)
			out := append([]*sym.Term{m.ctx.BV('"', 8)}, v.B...)
			return &Str{B: append(out, m.ctx.BV('"', 8))}
		}
	case *sym.Term:
		if v.IsBool() {
			if m.branch(v) {
				return m.str("true")
			}
			return m.str("false")
		}
		sg := isSigned(a.T)
		switch verb {
		case 'd', 'v':
			return &Str{B: m.decimal(v, sg)}
		case 'o':
			return &Str{B: m.formatBase(v, sg, 8)}
		case 'x':
			return &Str{B: m.formatBase(v, sg, 16)}
		case 'c':
			if v.IsConst() {
				return m.str(string(rune(v.Val)))
			}
			return &Str{B: []*sym.Term{m.ctx.Extract(v, 7, 0)}}
		case 's':
			return m.str("%!s(int)")
		}
	case Slice:
		if st, ok := a.T.Underlying().(*types.Slice); ok {
			if eb, ok := st.Elem().Underlying().(*types.Basic); ok && eb.Kind() == types.Uint8 {
				b := m.bytesToStr(v)
				switch verb {
				case 's':
					return b
				case 'x':
					return &Str{B: m.hexBytes(b.B)}
				}
			}
			if verb == 'v' || verb == 's' {
				// [a b c]
				out := []*sym.Term{m.ctx.BV('[', 8)}
				for i, e := range m.sliceElems(v) {
					if i > 0 {
						out = append(out, m.ctx.BV(' ', 8))
					}
					out = append(out, m.fmtArg(verb, Iface{T: st.Elem(), V: e}).B...)
				}
				return &Str{B: append(out, m.ctx.BV(']', 8))}
			}
		}
	case *Array:
		if at, ok := a.T.Underlying().(*types.Array); ok && verb == 'x' {
			b := make([]*sym.Term, len(v.E))
			for i, e := range v.E {
				b[i] = e.(*sym.Term)
			}
			_ = at
			return &Str{B: m.hexBytes(b)}
		}
	case Iface:
		return m.fmtArg(verb, v)
	}
	m.notEnc("fmt verb %%%c on %s", verb, a.T)
	return nil
}

func (m *Machine) format(f string, args []Value) *Str {
	var out []*sym.Term
	ai := 0
	symIdx := 0
	for i := 0; i < len(f); i++ {
		ch := f[i]
		if ch == 0x01 && symIdx < len(m.fmtSymBytes) {
			out = append(out, m.fmtSymBytes[symIdx])
			symIdx++
			continue
		}
		if ch != '%' {
			out = append(out, m.ctx.BV(uint64(ch), 8))
			continue
		}
		i++
		if i >= len(f) {
			break
		}
		if f[i] == '%' {
			out = append(out, m.ctx.BV('%', 8))
			continue
		}
		if strings.IndexByte("0123456789+-# .", f[i]) >= 0 {
			m.notEnc("fmt flags/width in %q", f)
		}
		if ai >= len(args) {
			out = append(out, m.str("%!"+string(f[i])+"(MISSING)").B...)
			continue
		}
		a := args[ai].(Iface)
		ai++
		out = append(out, m.fmtArg(f[i], a).B...)
	}
	return &Str{B: out}
}

// errorf builds a real *fmt.wrapError / *fmt.wrapErrors / *errors.errorString.
// The message is rendered lazily: only the format string is stored, because
// no claimed property depends on message text and rendering would call
// Error()/String() on every operand.
func (m *Machine) errorf(f string, args []Value) Value {
	var wrapped []Iface
	ai := 0
	for i := 0; i+1 < len(f); i++ {
		if f[i] != '%' {
			continue
		}
		i++
		if f[i] == '%' {
			continue
		}
		if f[i] == 'w' && ai < len(args) {
			if e, ok := args[ai].(Iface); ok && e.T != nil && m.hasMethod(e.T, "Error") {
				wrapped = append(wrapped, e)
			}
		}
		ai++
	}
	msg := m.str(f)
	fmtPkg := m.pkg("fmt")
	errT := types.Universe.Lookup("error").Type()
	switch len(wrapped) {
	case 0:
		es := m.pkgType("errors", "errorString")
		if es == nil {
			m.notEnc("errors.errorString not loaded")
		}
		c := m.newCell(es)
		c.Kids[0].V = msg
		return Iface{T: types.NewPointer(es), V: Ptr{c}}
	case 1:
		_ = fmtPkg
		wt := m.pkgType("fmt", "wrapError")
		c := m.newCell(wt)
		c.Kids[0].V = msg
		c.Kids[1].V = wrapped[0]
		return Iface{T: types.NewPointer(wt), V: Ptr{c}}
	default:
		wt := m.pkgType("fmt", "wrapErrors")
		c := m.newCell(wt)
		c.Kids[0].V = msg
		vals := make([]Value, len(wrapped))
		for i, w := range wrapped {
			vals[i] = w
		}
		c.Kids[1].V = m.makeSlice(errT, vals)
		return Iface{T: types.NewPointer(wt), V: Ptr{c}}
	}
}

func (m *Machine) pkg(path string) *ssa.Package {
	if p, ok := m.pkgCache[path]; ok {
		return p
	}
	for _, p := range m.P.Prog.AllPackages() {
		if p.Pkg.Path() == path {
			m.pkgCache[path] = p
			return p
		}
	}
	m.pkgCache[path] = nil
	return nil
}

func (m *Machine) pkgType(path, name string) types.Type {
	p := m.pkg(path)
	if p == nil {
		return nil
	}
	if t, ok := p.Members[name].(*ssa.Type); ok {
		return t.Type()
	}
	return nil
}

var _ = sort.Strings

// PathModel asks the solver for a model of the finished path's condition.
func (m *Machine) PathModel(res *PathResult) (map[string]uint64, bool) {
	var vars []*sym.Term
	seen := map[string]bool{}
	for _, in := range res.Inputs {
		for _, t := range in.Terms {
			if !seen[t.Name] {
				seen[t.Name] = true
				vars = append(vars, t)
			}
		}
	}
	// internal variables (digits, hashes, clock) that observations may mention
	for _, n := range sym.FreeVars(res.PC...) {
		if !seen[n] {
			seen[n] = true
			vars = append(vars, m.ctx.Vars[n])
		}
	}
	for _, o := range res.Observed {
		for _, t := range valueTerms(o.Val) {
			for _, n := range sym.FreeVars(t) {
				if !seen[n] {
					seen[n] = true
					vars = append(vars, m.ctx.Vars[n])
				}
			}
		}
	}
	for _, a := range res.AssertsHit {
		for _, n := range sym.FreeVars(a.Cond) {
			if !seen[n] {
				seen[n] = true
				vars = append(vars, m.ctx.Vars[n])
			}
		}
	}
	r, model := m.solver.CheckModel(res.PC, nil, vars)
	if r != smt.Sat {
		return nil, false
	}
	return model, true
}

func valueTerms(v Value) []*sym.Term {
	switch x := v.(type) {
	case *sym.Term:
		return []*sym.Term{x}
	case *Str:
		return x.B
	case Iface:
		return valueTerms(x.V)
	case *Struct:
		var out []*sym.Term
		for _, f := range x.F {
			out = append(out, valueTerms(f)...)
		}
		return out
	}
	return nil
}

// Canon renders an observed value under a model the same way the native
// harness API does (zzverif.canon).
func (m *Machine) Canon(v Value, model map[string]uint64) string {
	i, ok := v.(Iface)
	if !ok {
		return "?"
	}
	if i.T == nil {
		return "nil"
	}
	switch x := i.V.(type) {
	case *Str:
		b := make([]byte, len(x.B))
		for k, t := range x.B {
			b[k] = byte(sym.Eval(t, model))
		}
		return strconvQuote(string(b))
	case *sym.Term:
		val := sym.Eval(x, model)
		if x.IsBool() {
			if val == 1 {
				return "true"
			}
			return "false"
		}
		if isSigned(i.T) {
			sv := int64(val)
			if x.Width < 64 && val&(1<<uint(x.Width-1)) != 0 {
				sv = int64(val | ^((uint64(1) << uint(x.Width)) - 1))
			}
			return fmt.Sprintf("%d", sv)
		}
		return fmt.Sprintf("%d", val)
	case Slice:
		st, ok := i.T.Underlying().(*types.Slice)
		if !ok {
			return "?"
		}
		if eb, ok := st.Elem().Underlying().(*types.Basic); ok && eb.Kind() == types.Uint8 {
			s := m.bytesToStr(x)
			return m.Canon(Iface{T: types.Typ[types.String], V: s}, model)
		}
		if eb, ok := st.Elem().Underlying().(*types.Basic); ok && eb.Info()&types.IsString != 0 {
			var parts []string
			for _, e := range m.sliceElems(x) {
				parts = append(parts, m.Canon(Iface{T: types.Typ[types.String], V: e}, model))
			}
			return "[" + strings.Join(parts, " ") + "]"
		}
	case Iface:
		if x.T == nil {
			return "nil"
		}
		return "error"
	case Ptr:
		if m.hasMethod(i.T, "Error") {
			if x.C == nil {
				return "nil"
			}
			return "error"
		}
	}
	if m.hasMethod(i.T, "Error") {
		return "error"
	}
	return "?" + i.T.String()
}

func strconvQuote(s string) string { return strconv.Quote(s) }
