package exec

import (
	"fmt"
	"go/token"
	"go/types"
	"os"
	"sort"
	"strconv"
	"strings"
	"sync"
	"text/template/parse"
	"time"

	"golang.org/x/tools/go/ssa"

	"verif/engine/smt"
	"verif/engine/sym"
)

// Program is the immutable, shared part: SSA program plus tables.
type Program struct {
	Prog          *ssa.Program
	Redirects     map[string]*ssa.Function // real function name -> model function
	InitPkgs      map[string]bool          // packages whose init runs eagerly at path start
	LazyInit      map[string]bool          // packages whose init may run lazily on first global access
	initStoreMemo map[*ssa.Package]map[*ssa.Global]bool
	Tier          string
	ModelsPkg     *ssa.Package
	ApiPath       string          // import path of the harness API package
	Summarize     map[string]bool // functions explored as merged pure-callee summaries
	TreeMu        sync.Mutex
	TreeCache     map[string]*parse.Tree
}

type pathEnd struct {
	status string // ok | assume | infeasible | panic | notenc | unwind | abort
	msg    string
}

type goPanicT struct {
	val Value
	msg string
}

// Input is a named nondeterministic input created on the current path.
type Input struct {
	Name  string
	Kind  string // bool byte u32 i64 u64 string choice
	Terms []*sym.Term
	Val   int // choice value / string length
}

type Obligation struct {
	Harness string
	ID      string
	Verdict string // discharged | trivial | violated | unknown
	Ms      float64
	Path    []int
	Model   map[string]uint64
	Inputs  []Input
	Script  string
	PCSize  int
}

type OblAgg struct {
	Total, Trivial, Discharged, Violated, Unknown int
	Ms                                            float64
}

type PathResult struct {
	Status     string
	Msg        string
	Trace      []int
	Reached    []string
	Steps      int
	Forks      int
	Inputs     []Input
	PC         []*sym.Term
	Observed   []Observation
	AssertsHit []AssertEval
}

type Observation struct {
	Name string
	Val  Value
}

type AssertEval struct {
	ID   string
	Cond *sym.Term
}

type Stats struct {
	Paths, Steps, Forks, FeasQueries, AssertQueries, Unknown, CacheHits, Summaries, SummaryHits int
	FuncsEncoded                                                                                map[string]int
	NotEnc                                                                                      map[string]int
	Unwind                                                                                      int
}

type frame struct {
	fn        *ssa.Function
	locals    []Value
	lay       map[ssa.Value]int
	env       []Value
	defers    []func()
	visits    map[*ssa.BasicBlock]int
	panicking *goPanicT
	recovered bool
	result    Value
	cur       ssa.Instruction
}

type Machine struct {
	P      *Program
	ctx    *sym.Ctx
	solver *smt.Solver

	// per path
	pc            []*sym.Term
	pcSet         map[int]bool
	trace         []int
	pos           int
	pending       [][]int
	globals       map[*ssa.Global]*Cell
	inited        map[*ssa.Package]bool
	cellSeq       int
	mapSeq        int
	inputs        []Input
	nameCount     map[string]int
	reached       []string
	steps         int
	forks         int
	depth         int
	lenient       int // >0 while running a lazy package init
	observed      []Observation
	asserts       []AssertEval
	hashApps      []hashApp
	ext           map[string]interface{} // per-path scratch for intrinsics
	curDeferFrame *frame
	initDirect    bool
	permuteMaps   bool
	clockReads    []*sym.Term

	emptyStr     *Str
	strCache     map[string]*Str
	fnInfo       map[*ssa.Function]*fnInfo
	methCache    map[methKey]*ssa.Function
	constCache   map[*ssa.Const]Value
	pkgCache     map[string]*ssa.Package
	varCache     map[int][]int
	layouts      map[*ssa.Function]map[ssa.Value]int
	varByID      map[int]*sym.Term
	varUB        map[int]uint64
	varLB        map[int]uint64
	qcache       map[string]bool
	acache       map[string]smt.Result
	sumMemo      map[string]*summary
	sumDepth     int
	stack        []string
	writes       []writeRec
	writeLogOn   bool
	watchGlobals bool
	mergoNoDeref bool
	pooledAccess int // accesses to objects after they were handed back to a sync.Pool
	syncDepth    int // > 0 while a lock is held / inside Once.Do / in an atomic operation
	fmtSymBytes  []*sym.Term
	changedWhere []string

	writeHook func(c *Cell, old, new Value)
	readHook  func(c *Cell)

	Harness     string
	Obligations []*Obligation
	Agg         map[string]*OblAgg
	Stats       Stats
	MaxSteps    int
	MaxVisits   int
	WantScripts bool
	Bounds      map[string]int
	Debug       bool
	DebugDepth  int
}

type methKey struct {
	t    types.Type
	name string
}

type fnInfo struct {
	name      string
	intrinsic Intrinsic
	redirect  *ssa.Function
	summarize bool
}

type Intrinsic func(m *Machine, fn *ssa.Function, args []Value) Value

func NewMachine(p *Program, solver *smt.Solver) *Machine {
	m := &Machine{P: p, ctx: sym.NewCtx(), solver: solver,
		strCache: map[string]*Str{}, fnInfo: map[*ssa.Function]*fnInfo{},
		methCache: map[methKey]*ssa.Function{}, constCache: map[*ssa.Const]Value{}, pkgCache: map[string]*ssa.Package{}, varCache: map[int][]int{}, layouts: map[*ssa.Function]map[ssa.Value]int{}, varByID: map[int]*sym.Term{}, qcache: map[string]bool{}, acache: map[string]smt.Result{}, sumMemo: map[string]*summary{},
		Agg: map[string]*OblAgg{}, MaxSteps: 3_000_000, MaxVisits: 20000, Bounds: map[string]int{}}
	m.emptyStr = &Str{}
	m.Stats.FuncsEncoded = map[string]int{}
	m.Stats.NotEnc = map[string]int{}
	return m
}

func (m *Machine) Ctx() *sym.Ctx { return m.ctx }

func (m *Machine) end(status, msg string) {
	panic(&pathEnd{status, msg})
}

func (m *Machine) notEnc(format string, a ...interface{}) {
	msg := fmt.Sprintf(format, a...)
	if n := len(m.stack); n > 0 {
		lo := n - 3
		if lo < 0 {
			lo = 0
		}
		msg += " [in " + strings.Join(m.stack[lo:], " < ") + "]"
	}
	m.end("notenc", msg)
}

func (m *Machine) goPanic(msg string) {
	if len(m.stack) > 0 {
		n := len(m.stack)
		lo := n - 4
		if lo < 0 {
			lo = 0
		}
		msg += " [in " + strings.Join(m.stack[lo:], " < ") + "]"
	}
	panic(&goPanicT{msg: msg})
}

// RunPath executes the harness once along the decision prefix and returns the
// result together with newly discovered alternative prefixes.
func (m *Machine) RunPath(h *ssa.Function, prefix []int) (res PathResult, pending [][]int) {
	m.pc = m.pc[:0]
	m.pcSet = map[int]bool{}
	m.varUB, m.varLB = map[int]uint64{}, map[int]uint64{}
	m.trace = append([]int(nil), prefix...)
	m.pos = 0
	m.pending = nil
	m.globals = map[*ssa.Global]*Cell{}
	m.inited = map[*ssa.Package]bool{}
	m.cellSeq, m.mapSeq = 0, 0
	m.inputs = nil
	m.nameCount = map[string]int{}
	m.reached = nil
	m.steps, m.forks, m.depth, m.lenient = 0, 0, 0, 0
	m.observed, m.asserts = nil, nil
	m.hashApps = nil
	m.ext = map[string]interface{}{}
	m.curDeferFrame, m.permuteMaps, m.clockReads = nil, false, nil
	m.stack = m.stack[:0]
	m.writes, m.writeLogOn, m.changedWhere, m.writeHook = nil, false, nil, nil
	m.watchGlobals = false
	m.syncDepth = 0
	m.pooledAccess, m.readHook = 0, nil
	m.Harness = h.Name()

	func() {
		defer func() {
			if r := recover(); r != nil {
				switch e := r.(type) {
				case *pathEnd:
					res.Status, res.Msg = e.status, e.msg
				case *goPanicT:
					res.Status, res.Msg = "panic", e.msg
				default:
					panic(r)
				}
			}
		}()
		m.runEagerInits()
		m.callFn(h, nil, nil)
		res.Status = "ok"
	}()
	if res.Status == "notenc" {
		m.Stats.NotEnc[res.Msg]++
	}
	if res.Status == "unwind" {
		m.Stats.Unwind++
	}
	res.Trace = append([]int(nil), m.trace...)
	res.Reached = m.reached
	res.Steps = m.steps
	res.Forks = m.forks
	res.Inputs = m.inputs
	res.PC = append([]*sym.Term(nil), m.pc...)
	res.Observed = m.observed
	res.AssertsHit = m.asserts
	m.Stats.Paths++
	m.Stats.Steps += m.steps
	m.Stats.Forks += m.forks
	return res, m.pending
}

func (m *Machine) runEagerInits() {
	var pkgs []*ssa.Package
	for _, p := range m.P.Prog.AllPackages() {
		if m.P.InitPkgs[p.Pkg.Path()] {
			pkgs = append(pkgs, p)
		}
	}
	sort.Slice(pkgs, func(i, j int) bool { return importsDepth(pkgs[i].Pkg) < importsDepth(pkgs[j].Pkg) })
	for _, p := range pkgs {
		m.initPkg(p)
	}
}

var depthMemo = map[*types.Package]int{}

func importsDepth(p *types.Package) int {
	if d, ok := depthMemo[p]; ok {
		return d
	}
	depthMemo[p] = 0
	d := 0
	for _, q := range p.Imports() {
		if x := importsDepth(q) + 1; x > d {
			d = x
		}
	}
	depthMemo[p] = d
	return d
}

// initStores returns the package-level variables that the package initialiser assigns.
func (p *Program) initStores(pkg *ssa.Package) map[*ssa.Global]bool {
	p.TreeMu.Lock()
	defer p.TreeMu.Unlock()
	if p.initStoreMemo == nil {
		p.initStoreMemo = map[*ssa.Package]map[*ssa.Global]bool{}
	}
	if r, ok := p.initStoreMemo[pkg]; ok {
		return r
	}
	r := map[*ssa.Global]bool{}
	if init := pkg.Func("init"); init != nil {
		for _, b := range init.Blocks {
			for _, in := range b.Instrs {
				if st, ok := in.(*ssa.Store); ok {
					if g, ok := st.Addr.(*ssa.Global); ok {
						r[g] = true
					}
				}
			}
		}
	}
	p.initStoreMemo[pkg] = r
	return r
}

func (m *Machine) initPkg(p *ssa.Package) {
	if m.inited[p] {
		return
	}
	m.inited[p] = true
	init := p.Func("init")
	if init == nil || init.Blocks == nil {
		return
	}
	m.lenient++
	defer func() { m.lenient-- }()
	m.initDirect = true
	m.callFn(init, nil, nil)
}

func (m *Machine) global(g *ssa.Global) *Cell {
	if c, ok := m.globals[g]; ok {
		return c
	}
	c := m.newCell(g.Type().(*types.Pointer).Elem())
	c.Tag = "global:" + g.String()
	m.globals[g] = c
	if m.watchGlobals && g.Pkg != nil {
		path := g.Pkg.Pkg.Path()
		if m.P.InitPkgs[path] && !strings.HasPrefix(path, m.P.ApiPath) {
			m.colourCell(c, "$global", map[*Cell]bool{})
		}
	}
	if g.Pkg != nil && !m.inited[g.Pkg] {
		path := g.Pkg.Pkg.Path()
		if m.P.LazyInit[path] || m.P.InitPkgs[path] {
			m.initPkg(g.Pkg)
		} else if m.lenient == 0 && m.P.initStores(g.Pkg)[g] {
			// the package's initialiser is never executed (it is on the list of
			// packages that are modelled): a variable it assigns would be read as
			// its zero value (a nil error sentinel, an empty table) - refuse
			m.notEnc("variable %s of package %s, whose initialiser is not executed", g.Name(), path)
		}
	}
	return c
}

// ------------------------------------------------------------ path condition

func (m *Machine) addPC(t *sym.Term) {
	if t.IsTrue() {
		return
	}
	if t.Op == sym.OpAnd {
		for _, a := range t.Args {
			m.addPC(a)
		}
		return
	}
	if m.pcSet[t.ID] {
		return
	}
	m.pcSet[t.ID] = true
	m.pc = append(m.pc, t)
	m.noteBound(t)
}

// noteBound records interval facts var <= k / var >= k stated by a conjunct.
func (m *Machine) noteBound(t *sym.Term) {
	neg := false
	if t.Op == sym.OpNot {
		neg = true
		t = t.Args[0]
	}
	if t.Op != sym.OpUle && t.Op != sym.OpUlt {
		return
	}
	a, b := t.Args[0], t.Args[1]
	strict := t.Op == sym.OpUlt
	switch {
	case a.Op == sym.OpVar && b.IsConst(): // a <= k, a < k ; negated: a > k, a >= k
		k := b.Val
		if !neg {
			if strict {
				if k == 0 {
					return
				}
				k--
			}
			if old, ok := m.varUB[a.ID]; !ok || k < old {
				m.varUB[a.ID] = k
			}
		} else {
			if !strict {
				k++
			}
			if old, ok := m.varLB[a.ID]; !ok || k > old {
				m.varLB[a.ID] = k
			}
		}
	case b.Op == sym.OpVar && a.IsConst(): // k <= b, k < b ; negated: b < k, b <= k
		k := a.Val
		if !neg {
			if strict {
				k++
			}
			if old, ok := m.varLB[b.ID]; !ok || k > old {
				m.varLB[b.ID] = k
			}
		} else {
			if !strict {
				if k == 0 {
					return
				}
				k--
			}
			if old, ok := m.varUB[b.ID]; !ok || k < old {
				m.varUB[b.ID] = k
			}
		}
	}
}

// intervalFalse: the recorded bounds alone refute var == k.
func (m *Machine) intervalRefutesEq(t *sym.Term) bool {
	if t.Op != sym.OpEq {
		return false
	}
	a, b := t.Args[0], t.Args[1]
	if a.Op != sym.OpVar {
		a, b = b, a
	}
	if a.Op != sym.OpVar || !b.IsConst() {
		return false
	}
	if ub, ok := m.varUB[a.ID]; ok && b.Val > ub {
		return true
	}
	if lb, ok := m.varLB[a.ID]; ok && b.Val < lb {
		return true
	}
	return false
}

func (m *Machine) implied(t *sym.Term) (known bool, val bool) {
	if t.IsConst() {
		return true, t.IsTrue()
	}
	if m.pcSet[t.ID] {
		return true, true
	}
	if n := m.ctx.Not(t); m.pcSet[n.ID] {
		return true, false
	}
	if m.intervalRefutesEq(t) {
		return true, false
	}
	if t.Op == sym.OpNot && m.intervalRefutesEq(t.Args[0]) {
		return true, true
	}
	return false, false
}

func (m *Machine) varsOf(t *sym.Term) []int {
	if v, ok := m.varCache[t.ID]; ok {
		return v
	}
	seen := map[int]bool{}
	var out []int
	var walk func(x *sym.Term)
	walk = func(x *sym.Term) {
		if seen[x.ID] {
			return
		}
		seen[x.ID] = true
		if x.Op == sym.OpVar {
			out = append(out, x.ID)
			m.varByID[x.ID] = x
			return
		}
		if sub, ok := m.varCache[x.ID]; ok && len(x.Args) > 0 {
			for _, v := range sub {
				if !seen[-v-1] {
					seen[-v-1] = true
					out = append(out, v)
				}
			}
			return
		}
		for _, a := range x.Args {
			walk(a)
		}
	}
	walk(t)
	// dedupe (vars may be reached both directly and via cached sub-results)
	sort.Ints(out)
	k := 0
	for i, v := range out {
		if i == 0 || v != out[i-1] {
			out[k] = v
			k++
		}
	}
	out = out[:k]
	m.varCache[t.ID] = out
	return out
}

func (m *Machine) varTerm(id int) *sym.Term { return m.varByID[id] }

// closure returns the path-condition conjuncts transitively sharing variables with t.
func (m *Machine) closure(t *sym.Term) []*sym.Term {
	vs := map[int]bool{}
	for _, v := range m.varsOf(t) {
		vs[v] = true
	}
	if len(vs) == 0 {
		return nil
	}
	taken := make([]bool, len(m.pc))
	var out []*sym.Term
	for changed := true; changed; {
		changed = false
		for i, c := range m.pc {
			if taken[i] {
				continue
			}
			cv := m.varsOf(c)
			hit := false
			for _, v := range cv {
				if vs[v] {
					hit = true
					break
				}
			}
			if hit {
				taken[i] = true
				changed = true
				out = append(out, c)
				for _, v := range cv {
					vs[v] = true
				}
			}
		}
	}
	return out
}

func queryKey(cs []*sym.Term, extra *sym.Term) string {
	ids := make([]int, len(cs))
	for i, c := range cs {
		ids[i] = c.ID
	}
	sort.Ints(ids)
	b := make([]byte, 0, 6*len(ids)+8)
	for _, id := range ids {
		b = strconv.AppendInt(b, int64(id), 36)
		b = append(b, ',')
	}
	b = append(b, '|')
	if extra != nil {
		b = strconv.AppendInt(b, int64(extra.ID), 36)
	}
	return string(b)
}

// feasible decides pc ∧ extra using only the conjuncts that share variables
// with extra (the rest of pc is satisfiable on its own: the path is feasible),
// with a per-worker cache of decided queries.
func (m *Machine) feasible(extra *sym.Term) bool {
	if extra == nil {
		// whole-pc feasibility is only asked after adding a conjunct; check its closure
		if len(m.pc) == 0 {
			return true
		}
		last := m.pc[len(m.pc)-1]
		return m.feasibleRel(last)
	}
	if k, v := m.implied(extra); k {
		return v
	}
	return m.feasibleRel(extra)
}

func (m *Machine) feasibleRel(extra *sym.Term) bool {
	cs := m.closure(extra)
	inPC := m.pcSet[extra.ID]
	key := queryKey(cs, extra)
	if r, ok := m.qcache[key]; ok {
		m.Stats.CacheHits++
		return r
	}
	m.Stats.FeasQueries++
	var r smt.Result
	if len(cs) > 60 {
		if inPC {
			r = m.solver.Check(m.pc, nil)
		} else {
			r = m.solver.Check(m.pc, extra)
		}
	} else {
		q := cs
		if !inPC {
			q = append(append([]*sym.Term{}, cs...), extra)
		}
		r = m.solver.CheckIsolated(q)
	}
	if r == smt.Unknown {
		m.Stats.Unknown++
	}
	res := r != smt.Unsat
	if len(m.qcache) > 400_000 {
		m.qcache = map[string]bool{} // bounded memory: start over
	}
	m.qcache[key] = res
	return res
}

// fork chooses one of mutually exclusive, jointly exhaustive conditions,
// following the recorded trace or registering untried feasible alternatives.
func (m *Machine) fork(conds []*sym.Term) int {
	if m.pos < len(m.trace) {
		i := m.trace[m.pos]
		m.pos++
		m.addPC(conds[i])
		return i
	}
	var feas []int
	for i, c := range conds {
		if c.IsFalse() {
			continue
		}
		if i == len(conds)-1 && len(feas) == 0 {
			// exhaustive: the last one must be feasible if nothing else was
			feas = append(feas, i)
			break
		}
		if m.feasible(c) {
			feas = append(feas, i)
		}
	}
	if len(feas) == 0 {
		m.end("infeasible", "no feasible alternative")
	}
	m.forks++
	for k := len(feas) - 1; k >= 1; k-- {
		alt := append(append([]int(nil), m.trace[:m.pos]...), feas[k])
		m.pending = append(m.pending, alt)
	}
	m.trace = append(m.trace, feas[0])
	m.pos++
	m.addPC(conds[feas[0]])
	return feas[0]
}

// branch decides a boolean condition.
func (m *Machine) branch(c *sym.Term) bool {
	if k, v := m.implied(c); k {
		return v
	}
	return m.fork([]*sym.Term{c, m.ctx.Not(c)}) == 0
}

// choice forks over n unconstrained alternatives.
func (m *Machine) choice(n int) int {
	conds := make([]*sym.Term, n)
	for i := range conds {
		conds[i] = m.ctx.True
	}
	if m.pos < len(m.trace) {
		i := m.trace[m.pos]
		m.pos++
		return i
	}
	m.forks++
	for k := n - 1; k >= 1; k-- {
		alt := append(append([]int(nil), m.trace[:m.pos]...), k)
		m.pending = append(m.pending, alt)
	}
	m.trace = append(m.trace, 0)
	m.pos++
	return 0
}

// concretize forks a term over the values lo..hi (inclusive); other values end the path as infeasible-by-bound.
func (m *Machine) concretize(t *sym.Term, lo, hi int) int {
	if t.IsConst() {
		return int(t.SignedVal())
	}
	conds := make([]*sym.Term, 0, hi-lo+2)
	for v := lo; v <= hi; v++ {
		conds = append(conds, m.ctx.Eq(t, m.ctx.BV(uint64(v), t.Width)))
	}
	conds = append(conds, m.ctx.False)
	i := m.fork(conds)
	return lo + i
}

// ------------------------------------------------------------ calls

func (m *Machine) info(fn *ssa.Function) *fnInfo {
	if fi, ok := m.fnInfo[fn]; ok {
		return fi
	}
	name := fn.String()
	if fn.Origin() != nil {
		// generic instance: also try the origin's name
		name = fn.Origin().String()
	}
	fi := &fnInfo{name: fn.String()}
	if in, ok := intrinsics[name]; ok {
		fi.intrinsic = in
	} else if in, ok := intrinsics[strings.TrimPrefix(name, m.P.ApiPath+".")]; ok && strings.HasPrefix(name, m.P.ApiPath+".") {
		fi.intrinsic = in
	}
	if r, ok := m.P.Redirects[name]; ok && fi.intrinsic == nil {
		fi.redirect = r
	}
	if m.P.Summarize[name] || m.P.Summarize[fi.name] {
		fi.summarize = true
	}
	m.fnInfo[fn] = fi
	return fi
}

func (m *Machine) callFn(fn *ssa.Function, args []Value, env []Value) Value {
	if fn.Synthetic == "package initializer" {
		if !m.initDirect {
			return nil // imported packages are initialised lazily, on first use of one of their globals
		}
		m.initDirect = false
	}
	fi := m.info(fn)
	if fi.intrinsic != nil {
		return fi.intrinsic(m, fn, args)
	}
	if fi.redirect != nil {
		return m.callFn(fi.redirect, args, nil)
	}
	if fn.Blocks == nil {
		if m.lenient > 0 {
			return m.zeroResults(fn.Signature)
		}
		m.notEnc("external function %s", fi.name)
	}
	if fi.summarize && m.lenient == 0 {
		return m.callSummarized(fn, args, env)
	}
	return m.callFnBody(fn, args, env)
}

func (m *Machine) callFnBody(fn *ssa.Function, args []Value, env []Value) Value {
	fi := m.info(fn)
	if m.Debug && m.depth < m.DebugDepth {
		fmt.Fprintf(os.Stderr, "%s%s steps=%d pc=%d\n", strings.Repeat(" ", m.depth), fi.name, m.steps, len(m.pc))
	}
	m.depth++
	if m.depth > 400 {
		m.end("unwind", "call depth > 400 in "+fi.name)
	}
	m.Stats.FuncsEncoded[fi.name]++
	m.stack = append(m.stack, fi.name)
	defer func(n int) { m.stack = m.stack[:n] }(len(m.stack) - 1)
	lay := m.layout(fn)
	fr := &frame{fn: fn, locals: make([]Value, len(lay)), lay: lay, env: env}
	for i, p := range fn.Params {
		fr.locals[lay[p]] = args[i]
	}
	for i, fv := range fn.FreeVars {
		fr.locals[lay[fv]] = env[i]
	}
	res := m.runFrame(fr)
	m.depth--
	return res
}

func (m *Machine) zeroResults(sig *types.Signature) Value {
	switch sig.Results().Len() {
	case 0:
		return nil
	case 1:
		return m.zero(sig.Results().At(0).Type())
	}
	return m.zero(sig.Results())
}

func (m *Machine) runFrame(fr *frame) (ret Value) {
	defer func() {
		if r := recover(); r != nil {
			gp, ok := r.(*goPanicT)
			if !ok {
				if _, isEnd := r.(*pathEnd); !isEnd {
					if _, isStr := r.(string); !isStr || !strings.HasPrefix(r.(string), "ENGINE") {
						r = fmt.Sprintf("ENGINE BUG: %v\n  in %s at %v", r, fr.fn, fr.cur)
					} else {
						r = r.(string) + "\n  called from " + fr.fn.String()
					}
				}
				panic(r)
			}
			fr.panicking = gp
			m.runDefers(fr)
			if fr.recovered {
				ret = fr.result
				return
			}
			panic(gp)
		}
	}()
	m.exec(fr)
	return fr.result
}

func (m *Machine) runDefers(fr *frame) {
	for len(fr.defers) > 0 {
		d := fr.defers[len(fr.defers)-1]
		fr.defers = fr.defers[:len(fr.defers)-1]
		d()
	}
}

func (m *Machine) layout(fn *ssa.Function) map[ssa.Value]int {
	if l, ok := m.layouts[fn]; ok {
		return l
	}
	l := map[ssa.Value]int{}
	for _, p := range fn.Params {
		l[p] = len(l)
	}
	for _, p := range fn.FreeVars {
		l[p] = len(l)
	}
	for _, b := range fn.Blocks {
		for _, ins := range b.Instrs {
			if v, ok := ins.(ssa.Value); ok {
				l[v] = len(l)
			}
		}
	}
	m.layouts[fn] = l
	return l
}

func (m *Machine) lookupMethod(t types.Type, meth *types.Func) *ssa.Function {
	k := methKey{t, meth.Id()}
	if f, ok := m.methCache[k]; ok {
		return f
	}
	ms := m.P.Prog.MethodSets.MethodSet(t)
	sel := ms.Lookup(meth.Pkg(), meth.Name())
	if sel == nil {
		m.notEnc("no method %s on %s", meth.Name(), t)
	}
	f := m.P.Prog.MethodValue(sel)
	m.methCache[k] = f
	return f
}

// CallMethod invokes a method by name on an interface value (used by intrinsics).
func (m *Machine) CallMethod(recv Iface, name string, args ...Value) Value {
	if recv.T == nil {
		m.goPanic("nil interface method call " + name)
	}
	ms := m.P.Prog.MethodSets.MethodSet(recv.T)
	var sel *types.Selection
	for i := 0; i < ms.Len(); i++ {
		if ms.At(i).Obj().Name() == name {
			sel = ms.At(i)
			break
		}
	}
	if sel == nil {
		m.notEnc("no method %s on %s", name, recv.T)
	}
	f := m.P.Prog.MethodValue(sel)
	return m.callFn(f, append([]Value{recv.V}, args...), nil)
}

func (m *Machine) hasMethod(t types.Type, name string) bool {
	if t == nil {
		return false
	}
	ms := m.P.Prog.MethodSets.MethodSet(t)
	for i := 0; i < ms.Len(); i++ {
		if ms.At(i).Obj().Name() == name {
			return true
		}
	}
	return false
}

func (m *Machine) call(fr *frame, cc *ssa.CallCommon) Value {
	args := make([]Value, 0, len(cc.Args)+1)
	if cc.IsInvoke() {
		recv := m.get(fr, cc.Value).(Iface)
		if recv.T == nil {
			m.goPanic("invalid memory address or nil pointer dereference (nil interface ." + cc.Method.Name() + ")")
		}
		fn := m.lookupMethod(recv.T, cc.Method)
		args = append(args, recv.V)
		for _, a := range cc.Args {
			args = append(args, m.get(fr, a))
		}
		return m.callFn(fn, args, nil)
	}
	for _, a := range cc.Args {
		args = append(args, m.get(fr, a))
	}
	switch f := cc.Value.(type) {
	case *ssa.Builtin:
		return m.builtin(fr, f, args, cc)
	case *ssa.Function:
		return m.callFn(f, args, nil)
	}
	cl, _ := m.get(fr, cc.Value).(*Closure)
	if cl == nil {
		m.goPanic("call of nil func")
	}
	return m.callFn(cl.Fn, args, cl.Env)
}

func (m *Machine) CallClosure(cl *Closure, args ...Value) Value {
	if cl == nil {
		m.goPanic("call of nil func")
	}
	return m.callFn(cl.Fn, args, cl.Env)
}

// ------------------------------------------------------------ interpreter

func (m *Machine) get(fr *frame, v ssa.Value) Value {
	switch x := v.(type) {
	case *ssa.Const:
		if r, ok := m.constCache[x]; ok {
			return r
		}
		r := m.constValue(x)
		m.constCache[x] = r
		return r
	case *ssa.Global:
		return Ptr{m.global(x)}
	case *ssa.Function:
		return &Closure{Fn: x}
	case *ssa.Builtin:
		m.notEnc("builtin as value %s", x.Name())
	}
	r := fr.locals[fr.lay[v]]
	if r == nil {
		if _, isCall := v.(*ssa.Call); !isCall {
			if _, known := fr.lay[v]; !known {
				panic(fmt.Sprintf("unset SSA value %s in %s", v.Name(), fr.fn))
			}
		}
	}
	return r
}

func (m *Machine) exec(fr *frame) {
	block := fr.fn.Blocks[0]
	var prev *ssa.BasicBlock
	fr.visits = map[*ssa.BasicBlock]int{}
	for {
		fr.visits[block]++
		if fr.visits[block] > m.MaxVisits {
			m.end("unwind", fmt.Sprintf("block %d of %s visited > %d times", block.Index, fr.fn, m.MaxVisits))
		}
		var next *ssa.BasicBlock
		for _, ins := range block.Instrs {
			m.steps++
			fr.cur = ins
			if m.steps > m.MaxSteps {
				m.end("unwind", fmt.Sprintf("step limit %d", m.MaxSteps))
			}
			switch i := ins.(type) {
			case *ssa.DebugRef:
			case *ssa.Phi:
				for k, p := range block.Preds {
					if p == prev {
						fr.locals[fr.lay[i]] = m.get(fr, i.Edges[k])
						break
					}
				}
			case *ssa.Alloc:
				fr.locals[fr.lay[i]] = Ptr{m.newCell(i.Type().(*types.Pointer).Elem())}
			case *ssa.UnOp:
				fr.locals[fr.lay[i]] = m.unop(fr, i)
			case *ssa.BinOp:
				fr.locals[fr.lay[i]] = m.binop(i.Op, m.get(fr, i.X), m.get(fr, i.Y), i.X.Type(), i.Y.Type())
			case *ssa.Call:
				fr.locals[fr.lay[i]] = m.call(fr, &i.Call)
			case *ssa.Store:
				m.storePtr(m.get(fr, i.Addr), m.get(fr, i.Val))
			case *ssa.FieldAddr:
				p := m.get(fr, i.X).(Ptr)
				if p.C == nil {
					m.goPanic("invalid memory address or nil pointer dereference")
				}
				fr.locals[fr.lay[i]] = Ptr{p.C.Kids[i.Field]}
			case *ssa.Field:
				fr.locals[fr.lay[i]] = m.get(fr, i.X).(*Struct).F[i.Field]
			case *ssa.IndexAddr:
				fr.locals[fr.lay[i]] = m.indexAddr(m.get(fr, i.X), m.get(fr, i.Index).(*sym.Term), i.Index.Type())
			case *ssa.Index:
				fr.locals[fr.lay[i]] = m.index(m.get(fr, i.X), m.get(fr, i.Index).(*sym.Term), i.Index.Type())
			case *ssa.Lookup:
				fr.locals[fr.lay[i]] = m.lookup(fr, i)
			case *ssa.Slice:
				fr.locals[fr.lay[i]] = m.sliceOp(fr, i)
			case *ssa.MakeInterface:
				fr.locals[fr.lay[i]] = Iface{T: i.X.Type(), V: m.get(fr, i.X)}
			case *ssa.ChangeInterface:
				fr.locals[fr.lay[i]] = m.get(fr, i.X)
			case *ssa.ChangeType:
				fr.locals[fr.lay[i]] = m.get(fr, i.X)
			case *ssa.Convert:
				fr.locals[fr.lay[i]] = m.convert(m.get(fr, i.X), i.X.Type(), i.Type())
			case *ssa.MultiConvert:
				fr.locals[fr.lay[i]] = m.convert(m.get(fr, i.X), i.X.Type(), i.Type())
			case *ssa.TypeAssert:
				fr.locals[fr.lay[i]] = m.typeAssert(fr, i)
			case *ssa.Extract:
				fr.locals[fr.lay[i]] = m.get(fr, i.Tuple).(Tuple)[i.Index]
			case *ssa.MakeClosure:
				env := make([]Value, len(i.Bindings))
				for k, b := range i.Bindings {
					env[k] = m.get(fr, b)
				}
				fr.locals[fr.lay[i]] = &Closure{Fn: i.Fn.(*ssa.Function), Env: env}
			case *ssa.MakeMap:
				mt := i.Type().Underlying().(*types.Map)
				m.mapSeq++
				fr.locals[fr.lay[i]] = Map{&MapObj{ID: m.mapSeq, KT: mt.Key(), VT: mt.Elem()}}
			case *ssa.MakeSlice:
				ln := m.concreteInt(m.get(fr, i.Len), "make len")
				cp := m.concreteInt(m.get(fr, i.Cap), "make cap")
				if ln < 0 || cp < ln {
					m.goPanic("makeslice: len out of range")
				}
				et := i.Type().Underlying().(*types.Slice).Elem()
				fr.locals[fr.lay[i]] = Slice{Arr: m.newArrayCell(et, cp), Len: ln, Cap: cp}
			case *ssa.MapUpdate:
				m.mapUpdate(m.get(fr, i.Map).(Map), m.get(fr, i.Key), m.get(fr, i.Value))
			case *ssa.Range:
				fr.locals[fr.lay[i]] = m.rangeInit(m.get(fr, i.X))
			case *ssa.Next:
				fr.locals[fr.lay[i]] = m.rangeNext(m.get(fr, i.Iter).(*Opaque), i)
			case *ssa.Defer:
				m.deferCall(fr, i)
			case *ssa.RunDefers:
				m.runDefers(fr)
			case *ssa.Panic:
				v := m.get(fr, i.X)
				panic(&goPanicT{val: v, msg: m.describePanic(v)})
			case *ssa.Return:
				switch len(i.Results) {
				case 0:
				case 1:
					fr.result = m.get(fr, i.Results[0])
				default:
					t := make(Tuple, len(i.Results))
					for k, r := range i.Results {
						t[k] = m.get(fr, r)
					}
					fr.result = t
				}
				return
			case *ssa.Jump:
				next = block.Succs[0]
			case *ssa.If:
				c := m.get(fr, i.Cond).(*sym.Term)
				if m.branch(c) {
					next = block.Succs[0]
				} else {
					next = block.Succs[1]
				}
			case *ssa.Go:
				m.notEnc("go statement in %s", fr.fn)
			case *ssa.Select, *ssa.Send, *ssa.MakeChan:
				m.notEnc("channel operation in %s", fr.fn)
			case *ssa.SliceToArrayPointer:
				s := m.get(fr, i.X).(Slice)
				n := int(i.Type().(*types.Pointer).Elem().Underlying().(*types.Array).Len())
				if s.Len < n {
					m.goPanic("slice to array pointer: length mismatch")
				}
				if s.Arr == nil {
					fr.locals[fr.lay[i]] = Ptr{}
				} else if s.Off == 0 && len(s.Arr.Kids) == n {
					fr.locals[fr.lay[i]] = Ptr{s.Arr}
				} else {
					m.notEnc("SliceToArrayPointer with offset")
				}
			default:
				m.notEnc("unsupported instruction %T in %s", ins, fr.fn)
			}
		}
		if next == nil {
			// block ended with Panic/Return handled above; otherwise malformed
			m.notEnc("fallthrough off block in %s", fr.fn)
		}
		prev, block = block, next
	}
}

func (m *Machine) describePanic(v Value) string {
	if i, ok := v.(Iface); ok && i.T != nil {
		if s, ok := i.V.(*Str); ok {
			if cs, ok := concreteStr(s); ok {
				return "panic: " + cs
			}
		}
		return "panic: value of type " + i.T.String()
	}
	return "panic"
}

func (m *Machine) concreteInt(v Value, what string) int {
	t := v.(*sym.Term)
	if !t.IsConst() {
		m.notEnc("symbolic %s", what)
	}
	return int(t.SignedVal())
}

func (m *Machine) deferCall(fr *frame, d *ssa.Defer) {
	cc := &d.Call
	var fnv Value
	if cc.IsInvoke() {
		fnv = m.get(fr, cc.Value)
	} else if _, ok := cc.Value.(*ssa.Builtin); !ok {
		if _, ok := cc.Value.(*ssa.Function); !ok {
			fnv = m.get(fr, cc.Value)
		}
	}
	args := make([]Value, len(cc.Args))
	for i, a := range cc.Args {
		args[i] = m.get(fr, a)
	}
	fr.defers = append(fr.defers, func() {
		if cc.IsInvoke() {
			recv := fnv.(Iface)
			if recv.T == nil {
				m.goPanic("nil interface in defer")
			}
			fn := m.lookupMethod(recv.T, cc.Method)
			m.callFn(fn, append([]Value{recv.V}, args...), nil)
			return
		}
		switch f := cc.Value.(type) {
		case *ssa.Builtin:
			if f.Name() == "recover" {
				return
			}
			m.builtin(fr, f, args, cc)
		case *ssa.Function:
			m.curDeferFrame = fr
			m.callFn(f, args, nil)
		default:
			cl, _ := fnv.(*Closure)
			if cl == nil {
				m.goPanic("defer of nil func")
			}
			m.curDeferFrame = fr
			m.callFn(cl.Fn, args, cl.Env)
		}
	})
}

// ------------------------------------------------------------ memory ops

func (m *Machine) loadPtr(p Value) Value {
	switch x := p.(type) {
	case Ptr:
		if x.C == nil {
			m.goPanic("invalid memory address or nil pointer dereference")
		}
		return m.load(x.C)
	case SymPtr:
		return m.loadSym(x)
	}
	panic(fmt.Sprintf("loadPtr %T", p))
}

func (m *Machine) storePtr(p Value, v Value) {
	switch x := p.(type) {
	case Ptr:
		if x.C == nil {
			m.goPanic("invalid memory address or nil pointer dereference")
		}
		m.store(x.C, v)
		return
	case SymPtr:
		// a[i] = v  ==> every element becomes ite(i==k, v, old)
		n := len(x.Arr.Kids)
		vt, ok := v.(*sym.Term)
		if !ok {
			k := m.concretize(x.Idx, 0, n-1-x.Off)
			m.store(m.kid(x.Arr, x.Off+k), v)
			return
		}
		for k := x.Off; k < n; k++ {
			c := m.kid(x.Arr, k)
			cond := m.ctx.Eq(x.Idx, m.ctx.BV(uint64(k-x.Off), 64))
			if cond.IsFalse() {
				continue
			}
			old := c.V.(*sym.Term)
			m.store(c, m.ctx.Ite(cond, vt, old))
		}
		return
	}
	panic(fmt.Sprintf("storePtr %T", p))
}

// iteChain reads elems[idx] as an ite-chain grouped by distinct value.
func (m *Machine) iteChain(idx *sym.Term, elems []*sym.Term) *sym.Term {
	if len(elems) == 0 {
		m.goPanic("index out of range (empty)")
	}
	groups := map[int][]int{}
	var order []*sym.Term
	for i, e := range elems {
		if _, ok := groups[e.ID]; !ok {
			order = append(order, e)
		}
		groups[e.ID] = append(groups[e.ID], i)
	}
	// largest group is the default
	def := order[0]
	for _, e := range order {
		if len(groups[e.ID]) > len(groups[def.ID]) {
			def = e
		}
	}
	res := def
	for _, e := range order {
		if e == def {
			continue
		}
		var conds []*sym.Term
		for _, i := range groups[e.ID] {
			conds = append(conds, m.ctx.Eq(idx, m.ctx.BV(uint64(i), idx.Width)))
		}
		res = m.ctx.Ite(m.ctx.Or(conds...), e, res)
	}
	return res
}

func (m *Machine) loadSym(p SymPtr) Value {
	n := len(p.Arr.Kids) - p.Off
	elems := make([]*sym.Term, n)
	var z *sym.Term
	for i := 0; i < n; i++ {
		k := p.Arr.Kids[p.Off+i]
		if k == nil {
			if z == nil {
				zz, ok := m.zero(p.Arr.T.Underlying().(*types.Array).Elem()).(*sym.Term)
				if !ok {
					goto concretize
				}
				z = zz
			}
			elems[i] = z
			continue
		}
		t, ok := k.V.(*sym.Term)
		if !ok || !k.leaf {
			goto concretize
		}
		if m.readHook != nil {
			m.readHook(k)
		}
		elems[i] = t
	}
	return m.iteChain(p.Idx, elems)
concretize:
	i := m.concretize(p.Idx, 0, n-1)
	return m.load(m.kid(p.Arr, p.Off+i))
}

func (m *Machine) idx64(t *sym.Term, ty types.Type) *sym.Term {
	if t.Width == 64 {
		return t
	}
	if isSigned(ty) {
		return m.ctx.Sext(t, 64)
	}
	return m.ctx.Zext(t, 64)
}

// boundsCheck ensures 0 <= idx < n, forking a panic path when violable.
func (m *Machine) boundsCheck(idx *sym.Term, n int) {
	in := m.ctx.Ult(idx, m.ctx.BV(uint64(n), 64))
	if in.IsTrue() {
		return
	}
	if !m.branch(in) {
		m.goPanic(fmt.Sprintf("index out of range with length %d", n))
	}
}

func (m *Machine) indexAddr(x Value, idx *sym.Term, ity types.Type) Value {
	idx = m.idx64(idx, ity)
	var arr *Cell
	off, n := 0, 0
	switch v := x.(type) {
	case Slice:
		arr, off, n = v.Arr, v.Off, v.Len
	case Ptr:
		if v.C == nil {
			m.goPanic("invalid memory address or nil pointer dereference")
		}
		arr, n = v.C, len(v.C.Kids)
	default:
		panic(fmt.Sprintf("indexAddr on %T", x))
	}
	m.boundsCheck(idx, n)
	if idx.IsConst() {
		return Ptr{m.kid(arr, off+int(idx.Val))}
	}
	if n == 1 {
		return Ptr{m.kid(arr, off)}
	}
	// restrict the visible window to [off, off+n)
	win := arr
	if off+n != len(arr.Kids) {
		win = &Cell{ID: arr.ID, T: arr.T, Kids: arr.Kids[:off+n], Col: arr.Col}
		for i := off; i < off+n; i++ {
			m.kid(arr, i)
		}
		win.Kids = arr.Kids[:off+n]
	}
	return SymPtr{Arr: win, Off: off, Idx: idx}
}

func (m *Machine) index(x Value, idx *sym.Term, ity types.Type) Value {
	idx = m.idx64(idx, ity)
	switch v := x.(type) {
	case *Array:
		m.boundsCheck(idx, len(v.E))
		if idx.IsConst() {
			return v.E[idx.Val]
		}
		elems := make([]*sym.Term, len(v.E))
		for i, e := range v.E {
			t, ok := e.(*sym.Term)
			if !ok {
				k := m.concretize(idx, 0, len(v.E)-1)
				return v.E[k]
			}
			elems[i] = t
		}
		return m.iteChain(idx, elems)
	case *Str:
		return m.strIndex(v, idx)
	}
	panic(fmt.Sprintf("index on %T", x))
}

func (m *Machine) strIndex(s *Str, idx *sym.Term) *sym.Term {
	m.boundsCheck(idx, len(s.B))
	if idx.IsConst() {
		return s.B[idx.Val]
	}
	return m.iteChain(idx, s.B)
}

func (m *Machine) sliceOp(fr *frame, i *ssa.Slice) Value {
	x := m.get(fr, i.X)
	bound := func(v ssa.Value, def int, lo, hi int) int {
		if v == nil {
			return def
		}
		t := m.get(fr, v).(*sym.Term)
		if t.IsConst() {
			return int(t.SignedVal())
		}
		t = m.idx64(t, v.Type())
		// out-of-range check first
		in := m.ctx.And(m.ctx.Ule(m.ctx.BV(uint64(lo), 64), t), m.ctx.Ule(t, m.ctx.BV(uint64(hi), 64)))
		if !m.branch(in) {
			m.goPanic("slice bounds out of range")
		}
		return m.concretize(t, lo, hi)
	}
	switch v := x.(type) {
	case *Str:
		lo := bound(i.Low, 0, 0, len(v.B))
		hi := bound(i.High, len(v.B), lo, len(v.B))
		if lo < 0 || hi < lo || hi > len(v.B) {
			m.goPanic(fmt.Sprintf("slice bounds out of range [%d:%d] with length %d", lo, hi, len(v.B)))
		}
		if lo == 0 && hi == len(v.B) {
			return v
		}
		return &Str{B: v.B[lo:hi]}
	case Slice:
		lo := bound(i.Low, 0, 0, v.Cap)
		hi := bound(i.High, v.Len, lo, v.Cap)
		mx := bound(i.Max, v.Cap, hi, v.Cap)
		if lo < 0 || hi < lo || mx < hi || mx > v.Cap {
			m.goPanic(fmt.Sprintf("slice bounds out of range [%d:%d:%d] with capacity %d", lo, hi, mx, v.Cap))
		}
		if v.Arr == nil {
			return Slice{}
		}
		return Slice{Arr: v.Arr, Off: v.Off + lo, Len: hi - lo, Cap: mx - lo}
	case Ptr:
		if v.C == nil {
			m.goPanic("nil pointer dereference (slice of nil array pointer)")
		}
		n := len(v.C.Kids)
		lo := bound(i.Low, 0, 0, n)
		hi := bound(i.High, n, lo, n)
		mx := bound(i.Max, n, hi, n)
		if lo < 0 || hi < lo || mx < hi || mx > n {
			m.goPanic("slice bounds out of range")
		}
		return Slice{Arr: v.C, Off: lo, Len: hi - lo, Cap: mx - lo}
	}
	panic(fmt.Sprintf("slice of %T", x))
}

func (m *Machine) typeAssert(fr *frame, i *ssa.TypeAssert) Value {
	x := m.get(fr, i.X).(Iface)
	ok := false
	var res Value
	if x.T != nil {
		if it, isI := i.AssertedType.Underlying().(*types.Interface); isI {
			ok = types.Implements(x.T, it)
			res = x
		} else {
			ok = types.Identical(x.T, i.AssertedType)
			res = x.V
		}
	}
	if !ok {
		if i.CommaOk {
			return Tuple{m.zero(i.AssertedType), m.ctx.False}
		}
		if x.T == nil {
			m.goPanic(fmt.Sprintf("interface conversion: interface is nil, not %s", i.AssertedType))
		}
		m.goPanic(fmt.Sprintf("interface conversion: %s is not %s", x.T, i.AssertedType))
	}
	if i.CommaOk {
		return Tuple{res, m.ctx.True}
	}
	return res
}

// ------------------------------------------------------------ maps

func (m *Machine) mapFind(mo *MapObj, key Value) *mapEntry {
	if mo == nil {
		return nil
	}
	for _, e := range mo.Entries {
		if e.Del {
			continue
		}
		eq := m.valueEq(e.K, key)
		if eq.IsFalse() {
			continue
		}
		if m.branch(eq) {
			return e
		}
	}
	return nil
}

func (m *Machine) mapUpdate(mp Map, key, val Value) {
	if mp.M == nil {
		m.goPanic("assignment to entry in nil map")
	}
	if e := m.mapFind(mp.M, key); e != nil {
		m.store(e.V, val)
		return
	}
	c := m.newCell(mp.M.VT)
	c.Col = mp.M.Col
	m.store(c, val)
	if m.writeHook != nil && c.Col != "" && !c.leaf {
		// inserting a key is a write to the map even if the value has no bytes (map[string]struct{})
		m.writeHook(c, nil, val)
	}
	mp.M.Entries = append(mp.M.Entries, &mapEntry{K: key, V: c})
}

func (m *Machine) lookup(fr *frame, i *ssa.Lookup) Value {
	x := m.get(fr, i.X)
	if s, ok := x.(*Str); ok {
		return m.strIndex(s, m.idx64(m.get(fr, i.Index).(*sym.Term), i.Index.Type()))
	}
	mp := x.(Map)
	e := m.mapFind(mp.M, m.get(fr, i.Index))
	var v Value
	if e != nil {
		v = m.load(e.V)
	} else {
		v = m.zero(i.X.Type().Underlying().(*types.Map).Elem())
	}
	if i.CommaOk {
		return Tuple{v, m.ctx.Bool(e != nil)}
	}
	return v
}

type rangeIter struct {
	str     *Str
	pos     int
	entries []*mapEntry
	mo      *MapObj
}

func (m *Machine) rangeInit(x Value) Value {
	switch v := x.(type) {
	case *Str:
		return &Opaque{&rangeIter{str: v}}
	case Map:
		it := &rangeIter{mo: v.M}
		if v.M != nil {
			it.entries = m.orderEntries(v.M)
		}
		return &Opaque{it}
	}
	panic(fmt.Sprintf("range over %T", x))
}

// orderEntries returns the iteration order for a map range. By default
// insertion order; with PermuteMaps on, a nondeterministic permutation.
func (m *Machine) orderEntries(mo *MapObj) []*mapEntry {
	live := mo.live()
	if !m.permuteMaps || len(live) < 2 {
		return live
	}
	n := len(live)
	if n <= 4 {
		// all permutations via successive choices
		out := make([]*mapEntry, 0, n)
		rest := append([]*mapEntry(nil), live...)
		for len(rest) > 1 {
			k := m.choice(len(rest))
			out = append(out, rest[k])
			rest = append(rest[:k], rest[k+1:]...)
		}
		return append(out, rest[0])
	}
	// identity, reversal, rotations
	k := m.choice(n + 1)
	out := make([]*mapEntry, n)
	if k == n {
		for i := range live {
			out[i] = live[n-1-i]
		}
		return out
	}
	for i := range live {
		out[i] = live[(i+k)%n]
	}
	return out
}

func (m *Machine) rangeNext(o *Opaque, i *ssa.Next) Value {
	it := o.X.(*rangeIter)
	if i.IsString {
		if it.pos >= len(it.str.B) {
			return Tuple{m.ctx.False, m.ctx.BV(0, 64), m.ctx.BV(0, 32)}
		}
		r, size := m.decodeRune(&Str{B: it.str.B[it.pos:]})
		p := it.pos
		it.pos += size
		return Tuple{m.ctx.True, m.ctx.BV(uint64(p), 64), r}
	}
	for it.pos < len(it.entries) {
		e := it.entries[it.pos]
		it.pos++
		if e.Del {
			continue
		}
		return Tuple{m.ctx.True, e.K, m.load(e.V)}
	}
	mt := i.Iter.(*ssa.Range).X.Type().Underlying().(*types.Map)
	return Tuple{m.ctx.False, m.zero(mt.Key()), m.zero(mt.Elem())}
}

// decodeRune decodes the first rune of s (non-empty) by running the real utf8 code.
func (m *Machine) decodeRune(s *Str) (*sym.Term, int) {
	b0 := s.B[0]
	ascii := m.ctx.Ult(b0, m.ctx.BV(0x80, 8))
	if m.branch(ascii) {
		return m.ctx.Zext(b0, 32), 1
	}
	fn := m.findFunc("unicode/utf8", "DecodeRuneInString")
	if fn == nil {
		m.notEnc("utf8.DecodeRuneInString not loaded")
	}
	res := m.callFn(fn, []Value{s}, nil).(Tuple)
	size := m.concretize(res[1].(*sym.Term), 1, 4)
	return res[0].(*sym.Term), size
}

func (m *Machine) findFunc(pkgPath, name string) *ssa.Function {
	if p := m.pkg(pkgPath); p != nil {
		return p.Func(name)
	}
	return nil
}

var _ = token.ADD
var _ = time.Now
