package exec

import (
	"fmt"
	"go/token"
	"go/types"

	"golang.org/x/tools/go/ssa"

	"verif/engine/sym"
)

type hashApp struct {
	kind string
	in   []*sym.Term
	out  []*sym.Term
}

func (m *Machine) unop(fr *frame, i *ssa.UnOp) Value {
	x := m.get(fr, i.X)
	switch i.Op {
	case token.MUL:
		return m.loadPtr(x)
	case token.NOT:
		return m.ctx.Not(x.(*sym.Term))
	case token.SUB:
		if t, ok := x.(*sym.Term); ok {
			return m.ctx.Neg(t)
		}
		return Float{-x.(Float).V}
	case token.XOR:
		return m.ctx.BvNot(x.(*sym.Term))
	case token.ARROW:
		m.notEnc("channel receive")
	}
	panic("unop " + i.Op.String())
}

func (m *Machine) binop(op token.Token, x, y Value, xt, yt types.Type) Value {
	c := m.ctx
	switch a := x.(type) {
	case *sym.Term:
		b, ok := y.(*sym.Term)
		if !ok {
			panic(fmt.Sprintf("binop %s: %T vs %T", op, x, y))
		}
		if a.IsBool() {
			switch op {
			case token.EQL:
				return c.Eq(a, b)
			case token.NEQ:
				return c.Not(c.Eq(a, b))
			case token.AND, token.LAND:
				return c.And(a, b)
			case token.OR, token.LOR:
				return c.Or(a, b)
			}
			panic("bool binop " + op.String())
		}
		sg := isSigned(xt)
		switch op {
		case token.SHL, token.SHR:
			// adjust shift count width
			sh := b
			if sh.Width > a.Width {
				// saturate
				big := c.Ule(c.BV(uint64(a.Width), sh.Width), sh)
				sh = c.Ite(big, c.BV(uint64(a.Width), a.Width), c.Extract(sh, a.Width-1, 0))
			} else if sh.Width < a.Width {
				sh = c.Zext(sh, a.Width)
			}
			if op == token.SHL {
				return c.Bin(sym.OpShl, a, sh)
			}
			if sg {
				return c.Bin(sym.OpAshr, a, sh)
			}
			return c.Bin(sym.OpLshr, a, sh)
		}
		if a.Width != b.Width {
			panic(fmt.Sprintf("binop %s width %d vs %d (%s, %s)", op, a.Width, b.Width, xt, yt))
		}
		switch op {
		case token.ADD:
			return c.Bin(sym.OpAdd, a, b)
		case token.SUB:
			return c.Bin(sym.OpSub, a, b)
		case token.MUL:
			return c.Bin(sym.OpMul, a, b)
		case token.QUO, token.REM:
			z := c.Eq(b, c.BV(0, b.Width))
			if !z.IsFalse() {
				if m.branch(z) {
					m.goPanic("integer divide by zero")
				}
			}
			if op == token.QUO {
				if sg {
					return c.Bin(sym.OpSDiv, a, b)
				}
				return c.Bin(sym.OpUDiv, a, b)
			}
			if sg {
				return c.Bin(sym.OpSRem, a, b)
			}
			return c.Bin(sym.OpURem, a, b)
		case token.AND:
			return c.Bin(sym.OpBvAnd, a, b)
		case token.OR:
			return c.Bin(sym.OpBvOr, a, b)
		case token.XOR:
			return c.Bin(sym.OpBvXor, a, b)
		case token.AND_NOT:
			return c.Bin(sym.OpBvAnd, a, c.BvNot(b))
		case token.EQL:
			return c.Eq(a, b)
		case token.NEQ:
			return c.Not(c.Eq(a, b))
		case token.LSS:
			if sg {
				return c.Slt(a, b)
			}
			return c.Ult(a, b)
		case token.LEQ:
			if sg {
				return c.Sle(a, b)
			}
			return c.Ule(a, b)
		case token.GTR:
			if sg {
				return c.Slt(b, a)
			}
			return c.Ult(b, a)
		case token.GEQ:
			if sg {
				return c.Sle(b, a)
			}
			return c.Ule(b, a)
		}
	case *Str:
		b := y.(*Str)
		switch op {
		case token.ADD:
			if len(a.B) == 0 {
				return b
			}
			if len(b.B) == 0 {
				return a
			}
			n := make([]*sym.Term, 0, len(a.B)+len(b.B))
			n = append(append(n, a.B...), b.B...)
			return &Str{B: n}
		case token.EQL:
			return m.valueEq(a, b)
		case token.NEQ:
			return c.Not(m.valueEq(a, b))
		case token.LSS:
			return m.strLess(a, b, false)
		case token.LEQ:
			return m.strLess(a, b, true)
		case token.GTR:
			return m.strLess(b, a, false)
		case token.GEQ:
			return m.strLess(b, a, true)
		}
	case Float:
		b := y.(Float)
		switch op {
		case token.ADD:
			return Float{a.V + b.V}
		case token.SUB:
			return Float{a.V - b.V}
		case token.MUL:
			return Float{a.V * b.V}
		case token.QUO:
			return Float{a.V / b.V}
		case token.EQL:
			return c.Bool(a.V == b.V)
		case token.NEQ:
			return c.Bool(a.V != b.V)
		case token.LSS:
			return c.Bool(a.V < b.V)
		case token.LEQ:
			return c.Bool(a.V <= b.V)
		case token.GTR:
			return c.Bool(a.V > b.V)
		case token.GEQ:
			return c.Bool(a.V >= b.V)
		}
	}
	switch op {
	case token.EQL:
		return m.ifaceAwareEq(x, y)
	case token.NEQ:
		return c.Not(m.ifaceAwareEq(x, y))
	}
	panic(fmt.Sprintf("binop %s on %T", op, x))
}

func (m *Machine) ifaceAwareEq(x, y Value) *sym.Term {
	return m.valueEq(x, y)
}

func (m *Machine) convert(v Value, from, to types.Type) Value {
	c := m.ctx
	fu, tu := from.Underlying(), to.Underlying()
	switch x := v.(type) {
	case *sym.Term:
		if tb, ok := tu.(*types.Basic); ok {
			if w, _, ok := intWidth(tb); ok {
				if x.Width == w {
					return x
				}
				if w < x.Width {
					return c.Extract(x, w-1, 0)
				}
				if isSigned(from) {
					return c.Sext(x, w)
				}
				return c.Zext(x, w)
			}
			if tb.Info()&types.IsString != 0 {
				// string(rune)
				if x.IsConst() {
					return m.str(string(rune(x.SignedVal())))
				}
				fn := m.findFunc("unicode/utf8", "AppendRune")
				if fn == nil {
					m.notEnc("string(rune) of symbolic rune")
				}
				r := x
				if r.Width < 32 {
					r = c.Zext(r, 32)
				} else if r.Width > 32 {
					r = c.Extract(r, 31, 0)
				}
				s := m.callFn(fn, []Value{Slice{}, r}, nil).(Slice)
				return m.bytesToStr(s)
			}
			if tb.Info()&types.IsFloat != 0 {
				if x.IsConst() {
					if isSigned(from) {
						return Float{float64(x.SignedVal())}
					}
					return Float{float64(x.Val)}
				}
				m.notEnc("int->float of symbolic value")
			}
			if tb.Kind() == types.UnsafePointer {
				m.notEnc("uintptr->unsafe.Pointer")
			}
		}
	case *Str:
		if ts, ok := tu.(*types.Slice); ok {
			eb := ts.Elem().Underlying().(*types.Basic)
			if eb.Kind() == types.Uint8 {
				if len(x.B) == 0 {
					return Slice{Arr: m.newArrayCell(ts.Elem(), 0)}
				}
				arr := m.newArrayCell(ts.Elem(), len(x.B))
				for i, b := range x.B {
					k := m.kid(arr, i)
					k.V = b
				}
				return Slice{Arr: arr, Len: len(x.B), Cap: len(x.B)}
			}
			// []rune(s)
			var runes []*sym.Term
			rest := x
			for len(rest.B) > 0 {
				r, n := m.decodeRune(rest)
				runes = append(runes, r)
				rest = &Str{B: rest.B[n:]}
			}
			arr := m.newArrayCell(ts.Elem(), len(runes))
			for i, r := range runes {
				m.kid(arr, i).V = r
			}
			return Slice{Arr: arr, Len: len(runes), Cap: len(runes)}
		}
		if tb, ok := tu.(*types.Basic); ok && tb.Info()&types.IsString != 0 {
			return x
		}
	case Slice:
		if tb, ok := tu.(*types.Basic); ok && tb.Info()&types.IsString != 0 {
			fs := fu.(*types.Slice)
			if fs.Elem().Underlying().(*types.Basic).Kind() == types.Uint8 {
				return m.bytesToStr(x)
			}
			m.notEnc("string([]rune)")
		}
		if _, ok := tu.(*types.Slice); ok {
			return x
		}
	case Float:
		if tb, ok := tu.(*types.Basic); ok {
			if w, sg, ok := intWidth(tb); ok {
				if sg {
					return c.BV(uint64(int64(x.V)), w)
				}
				return c.BV(uint64(x.V), w)
			}
			if tb.Info()&types.IsFloat != 0 {
				if tb.Kind() == types.Float32 {
					return Float{float64(float32(x.V))}
				}
				return x
			}
		}
	case Ptr:
		// pointer <-> unsafe.Pointer
		if _, ok := tu.(*types.Pointer); ok {
			return x
		}
		if tb, ok := tu.(*types.Basic); ok && tb.Kind() == types.UnsafePointer {
			return x
		}
	}
	m.notEnc("convert %T from %s to %s", v, from, to)
	return nil
}

func (m *Machine) bytesToStr(s Slice) *Str {
	if s.Len == 0 {
		return m.emptyStr
	}
	b := make([]*sym.Term, s.Len)
	for i := 0; i < s.Len; i++ {
		k := s.Arr.Kids[s.Off+i]
		if k == nil {
			b[i] = m.ctx.BV(0, 8)
		} else {
			if m.readHook != nil {
				m.readHook(k)
			}
			b[i] = k.V.(*sym.Term)
		}
	}
	return &Str{B: b}
}

// sliceElems loads the elements of a slice.
func (m *Machine) sliceElems(s Slice) []Value {
	out := make([]Value, s.Len)
	for i := 0; i < s.Len; i++ {
		out[i] = m.load(m.kid(s.Arr, s.Off+i))
	}
	return out
}

func (m *Machine) makeSlice(elem types.Type, vals []Value) Slice {
	arr := m.newArrayCell(elem, len(vals))
	for i, v := range vals {
		m.store(m.kid(arr, i), v)
	}
	return Slice{Arr: arr, Len: len(vals), Cap: len(vals)}
}

func (m *Machine) makeByteSlice(b []*sym.Term) Slice {
	arr := m.newArrayCell(types.Typ[types.Uint8], len(b))
	for i, v := range b {
		m.kid(arr, i).V = v
	}
	return Slice{Arr: arr, Len: len(b), Cap: len(b)}
}

func (m *Machine) builtin(fr *frame, b *ssa.Builtin, args []Value, cc *ssa.CallCommon) Value {
	c := m.ctx
	switch b.Name() {
	case "len":
		switch x := args[0].(type) {
		case *Str:
			return c.BV(uint64(len(x.B)), 64)
		case Slice:
			return c.BV(uint64(x.Len), 64)
		case Map:
			if x.M == nil {
				return c.BV(0, 64)
			}
			return c.BV(uint64(len(x.M.live())), 64)
		case *Array:
			return c.BV(uint64(len(x.E)), 64)
		case Ptr:
			return c.BV(uint64(len(x.C.Kids)), 64)
		}
	case "cap":
		switch x := args[0].(type) {
		case Slice:
			return c.BV(uint64(x.Cap), 64)
		case *Array:
			return c.BV(uint64(len(x.E)), 64)
		case Ptr:
			return c.BV(uint64(len(x.C.Kids)), 64)
		}
	case "append":
		s := args[0].(Slice)
		var add []Value
		switch y := args[1].(type) {
		case Slice:
			add = m.sliceElems(y)
		case *Str:
			add = make([]Value, len(y.B))
			for i, t := range y.B {
				add[i] = t
			}
		}
		if len(add) == 0 {
			return s
		}
		et := cc.Args[0].Type().Underlying().(*types.Slice).Elem()
		if s.Arr != nil && s.Len+len(add) <= s.Cap {
			for i, v := range add {
				m.store(m.kid(s.Arr, s.Off+s.Len+i), v)
			}
			return Slice{Arr: s.Arr, Off: s.Off, Len: s.Len + len(add), Cap: s.Cap}
		}
		ncap := 2 * s.Cap
		if ncap < s.Len+len(add) {
			ncap = s.Len + len(add)
		}
		arr := m.newArrayCell(et, ncap)
		old := m.sliceElems(s)
		for i, v := range old {
			m.store(m.kid(arr, i), v)
		}
		for i, v := range add {
			m.store(m.kid(arr, s.Len+i), v)
		}
		return Slice{Arr: arr, Len: s.Len + len(add), Cap: ncap}
	case "copy":
		d := args[0].(Slice)
		var src []Value
		switch y := args[1].(type) {
		case Slice:
			src = m.sliceElems(y)
		case *Str:
			src = make([]Value, len(y.B))
			for i, t := range y.B {
				src[i] = t
			}
		}
		n := len(src)
		if d.Len < n {
			n = d.Len
		}
		for i := 0; i < n; i++ {
			m.store(m.kid(d.Arr, d.Off+i), src[i])
		}
		return c.BV(uint64(n), 64)
	case "delete":
		mp := args[0].(Map)
		if e := m.mapFind(mp.M, args[1]); e != nil {
			e.Del = true
			if m.writeHook != nil {
				m.writeHook(e.V, m.load(e.V), nil)
			}
		}
		return nil
	case "min", "max":
		res := args[0]
		for _, a := range args[1:] {
			var lt Value
			if b.Name() == "min" {
				lt = m.binop(token.LSS, a, res, cc.Args[0].Type(), cc.Args[0].Type())
			} else {
				lt = m.binop(token.GTR, a, res, cc.Args[0].Type(), cc.Args[0].Type())
			}
			switch r := res.(type) {
			case *sym.Term:
				res = c.Ite(lt.(*sym.Term), a.(*sym.Term), r)
			default:
				if m.branch(lt.(*sym.Term)) {
					res = a
				}
			}
		}
		return res
	case "clear":
		switch x := args[0].(type) {
		case Map:
			if x.M != nil {
				for _, e := range x.M.Entries {
					e.Del = true
				}
			}
		case Slice:
			et := cc.Args[0].Type().Underlying().(*types.Slice).Elem()
			for i := 0; i < x.Len; i++ {
				m.store(m.kid(x.Arr, x.Off+i), m.zero(et))
			}
		}
		return nil
	case "print", "println":
		return nil
	case "recover":
		// only meaningful in a deferred call
		if f := m.curDeferFrame; f != nil && f.panicking != nil && !f.recovered {
			f.recovered = true
			gp := f.panicking
			if gp.val != nil {
				return gp.val
			}
			return Iface{T: types.Typ[types.String], V: m.str(gp.msg)}
		}
		return Iface{}
	case "ssa:wrapnilchk":
		if p, ok := args[0].(Ptr); ok && p.C == nil {
			m.goPanic("value method called using nil pointer")
		}
		return args[0]
	}
	m.notEnc("builtin %s on %T", b.Name(), args[0])
	return nil
}
