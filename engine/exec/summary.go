package exec

import (
	"fmt"
	"go/types"
	"sort"
	"strings"

	"golang.org/x/tools/go/ssa"

	"verif/engine/sym"
)

// Pure-callee summaries. A call to a function in Program.Summarize is explored
// exhaustively in a nested DFS (all its paths, with feasibility queries), and
// the results are merged into ite-terms guarded by the nested path conditions,
// so the caller continues on ONE path instead of one per callee path. Results
// of different shape (string length, nil/non-nil, distinct objects, panic) are
// grouped and the caller forks once over the groups. The callee must not write
// to memory that existed before the call (checked).

type subResult struct {
	cond  *sym.Term
	val   Value
	panic *goPanicT
}

type summary struct {
	groups [][]subResult
	keys   []string
	lost   bool // some nested path was cut by Assume / infeasibility
	all    *sym.Term
}

func (m *Machine) shapeKey(v Value) string {
	switch x := v.(type) {
	case nil:
		return "nil"
	case *sym.Term:
		return fmt.Sprintf("t%d", x.Width)
	case *Str:
		return fmt.Sprintf("s%d", len(x.B))
	case Tuple:
		parts := make([]string, len(x))
		for i, e := range x {
			parts[i] = m.shapeKey(e)
		}
		return "(" + strings.Join(parts, ",") + ")"
	case Iface:
		if x.T == nil {
			return "inil"
		}
		return "i[" + x.T.String() + "]" + m.shapeKey(x.V)
	case Ptr:
		if x.C == nil {
			return "pnil"
		}
		return fmt.Sprintf("p%d", x.C.ID)
	case Slice:
		if x.Arr == nil {
			return "slnil"
		}
		// byte/scalar slices in fresh arrays can be merged element-wise when lengths agree
		return fmt.Sprintf("sl%d:%d", x.Len, x.Cap)
	case *Struct:
		parts := make([]string, len(x.F))
		for i, e := range x.F {
			parts[i] = m.shapeKey(e)
		}
		return "{" + strings.Join(parts, ",") + "}"
	case *Array:
		parts := make([]string, len(x.E))
		for i, e := range x.E {
			parts[i] = m.shapeKey(e)
		}
		return "[" + strings.Join(parts, ",") + "]"
	case Map:
		if x.M == nil {
			return "mnil"
		}
		return fmt.Sprintf("m%d", x.M.ID)
	case *Closure:
		return fmt.Sprintf("c%p", x)
	case Float:
		return fmt.Sprintf("f%v", x.V)
	case *Opaque:
		return fmt.Sprintf("o%p", x)
	}
	return fmt.Sprintf("?%T", v)
}

// mergeVals merges same-shape values under mutually exclusive conditions.
func (m *Machine) mergeVals(rs []subResult, pick func(subResult) Value) Value {
	first := pick(rs[0])
	if len(rs) == 1 {
		return first
	}
	switch x := first.(type) {
	case nil:
		return nil
	case *sym.Term:
		res := x
		for i := len(rs) - 1; i >= 1; i-- {
			_ = i
		}
		// build ite chain: last as default
		res = pick(rs[len(rs)-1]).(*sym.Term)
		for i := len(rs) - 2; i >= 0; i-- {
			res = m.ctx.Ite(rs[i].cond, pick(rs[i]).(*sym.Term), res)
		}
		return res
	case *Str:
		out := make([]*sym.Term, len(x.B))
		for k := range out {
			kk := k
			out[k] = m.mergeVals(rs, func(r subResult) Value { return pick(r).(*Str).B[kk] }).(*sym.Term)
		}
		return &Str{B: out}
	case Tuple:
		out := make(Tuple, len(x))
		for k := range out {
			kk := k
			out[k] = m.mergeVals(rs, func(r subResult) Value { return pick(r).(Tuple)[kk] })
		}
		return out
	case Iface:
		if x.T == nil {
			return x
		}
		return Iface{T: x.T, V: m.mergeVals(rs, func(r subResult) Value { return pick(r).(Iface).V })}
	case *Struct:
		out := &Struct{F: make([]Value, len(x.F))}
		for k := range out.F {
			kk := k
			out.F[k] = m.mergeVals(rs, func(r subResult) Value { return pick(r).(*Struct).F[kk] })
		}
		return out
	case *Array:
		out := &Array{E: make([]Value, len(x.E))}
		for k := range out.E {
			kk := k
			out.E[k] = m.mergeVals(rs, func(r subResult) Value { return pick(r).(*Array).E[kk] })
		}
		return out
	case Slice:
		if x.Arr == nil {
			return x
		}
		// merge element-wise into a fresh array
		et := x.Arr.T.Underlying().(*types.Array).Elem()
		arr := m.newArrayCell(et, x.Cap)
		for k := 0; k < x.Len; k++ {
			kk := k
			v := m.mergeVals(rs, func(r subResult) Value {
				s := pick(r).(Slice)
				return m.load(m.kid(s.Arr, s.Off+kk))
			})
			m.store(m.kid(arr, k), v)
		}
		return Slice{Arr: arr, Len: x.Len, Cap: x.Cap}
	}
	// identical objects by shape key (pointer identity etc.)
	return first
}

func (m *Machine) argKey(args []Value) (string, bool) {
	var sb strings.Builder
	var add func(v Value) bool
	add = func(v Value) bool {
		switch x := v.(type) {
		case *sym.Term:
			fmt.Fprintf(&sb, "t%d;", x.ID)
		case *Str:
			sb.WriteString("s")
			for _, b := range x.B {
				fmt.Fprintf(&sb, "%d,", b.ID)
			}
			sb.WriteString(";")
		case Tuple:
			for _, e := range x {
				if !add(e) {
					return false
				}
			}
		case *Struct:
			sb.WriteString("{")
			for _, e := range x.F {
				if !add(e) {
					return false
				}
			}
			sb.WriteString("}")
		case Slice:
			if x.Arr == nil {
				sb.WriteString("slnil;")
				return true
			}
			// value-hash scalar/string elements (read-only use inside a pure callee)
			sb.WriteString("sl[")
			for i := 0; i < x.Len; i++ {
				k := x.Arr.Kids[x.Off+i]
				if k == nil {
					sb.WriteString("z;")
					continue
				}
				if !k.leaf {
					return false
				}
				if !add(k.V) {
					return false
				}
			}
			sb.WriteString("]")
		case Iface:
			if x.T == nil {
				sb.WriteString("inil;")
				return true
			}
			sb.WriteString("i[" + x.T.String() + "]")
			return add(x.V)
		case Float:
			fmt.Fprintf(&sb, "f%v;", x.V)
		default:
			return false
		}
		return true
	}
	for _, a := range args {
		if !add(a) {
			return "", false
		}
	}
	return sb.String(), true
}

func (m *Machine) callSummarized(fn *ssa.Function, args []Value, env []Value) Value {
	var memoKey string
	memoOK := false
	if len(env) == 0 {
		if k, ok := m.argKey(args); ok {
			// the summary depends on the path condition only through the conjuncts
			// that (transitively) share variables with the arguments
			var ts []*sym.Term
			for _, a := range args {
				ts = append(ts, valueTerms2(m, a)...)
			}
			rel := m.closure(m.ctx.And(eqSelf(m, ts)...))
			memoKey = fmt.Sprintf("%p|%s|%s", fn, k, queryKey(rel, nil))
			memoOK = true
		}
	}
	var sm *summary
	if memoOK {
		sm = m.sumMemo[memoKey]
	}
	if sm == nil {
		sm = m.explore(fn, args, env)
		if memoOK {
			if len(m.sumMemo) > 60000 {
				m.sumMemo = map[string]*summary{}
			}
			m.sumMemo[memoKey] = sm
		}
	} else {
		m.Stats.SummaryHits++
	}
	if len(sm.groups) == 0 {
		m.end("assume", "every path of summarized "+fn.Name()+" is infeasible here")
	}
	gi := 0
	if len(sm.groups) > 1 {
		conds := make([]*sym.Term, len(sm.groups))
		for i, g := range sm.groups {
			cs := make([]*sym.Term, len(g))
			for k, r := range g {
				cs[k] = r.cond
			}
			conds[i] = m.ctx.Or(cs...)
		}
		if sm.lost {
			conds = append(conds, m.ctx.False)
		}
		gi = m.fork(conds)
	} else if sm.lost {
		if !m.feasible(sm.all) {
			m.end("assume", "summarized callee has no feasible path here")
		}
		m.addPC(sm.all)
	}
	g := sm.groups[gi]
	if g[0].panic != nil {
		panic(g[0].panic)
	}
	return m.mergeVals(g, func(r subResult) Value { return r.val })
}

// explore runs all paths of fn from the current state.
func (m *Machine) explore(fn *ssa.Function, args []Value, env []Value) *summary {
	m.Stats.Summaries++
	outerTrace := m.trace
	outerPos := m.pos
	outerPending := m.pending
	outerPCLen := len(m.pc)
	outerNames := m.nameCount
	outerInputs := len(m.inputs)
	outerDepth := m.depth
	cellMark, mapMark := m.cellSeq, m.mapSeq
	outerHook := m.writeHook
	m.sumDepth++
	m.writeHook = func(c *Cell, old, new Value) {
		if c.ID <= cellMark && c.ID != 0 {
			panic(fmt.Sprintf("ENGINE: summarized function %s writes to pre-existing memory (cell %d %s)", fn, c.ID, c.Tag))
		}
		if outerHook != nil {
			outerHook(c, old, new)
		}
	}
	_ = mapMark
	restore := func() {
		for _, t := range m.pc[outerPCLen:] {
			delete(m.pcSet, t.ID)
		}
		m.pc = m.pc[:outerPCLen]
		m.depth = outerDepth
		m.varUB, m.varLB = map[int]uint64{}, map[int]uint64{}
		for _, t := range m.pc {
			m.noteBound(t)
		}
	}
	maxNames := map[string]int{}
	var results []subResult
	lost := false
	stack := [][]int{nil}
	base := append([]int(nil), outerTrace[:outerPos]...)
	for len(stack) > 0 {
		pre := stack[len(stack)-1]
		stack = stack[:len(stack)-1]
		m.trace = append(append([]int(nil), base...), pre...)
		m.pos = outerPos
		m.pending = nil
		nc := make(map[string]int, len(outerNames))
		for k, v := range outerNames {
			nc[k] = v
		}
		m.nameCount = nc
		var res subResult
		dropped := false
		func() {
			defer func() {
				if r := recover(); r != nil {
					switch e := r.(type) {
					case *goPanicT:
						res.panic = e
					case *pathEnd:
						if e.status == "assume" || e.status == "infeasible" {
							dropped = true
							return
						}
						// restore outer bookkeeping before propagating
						m.writeHook = outerHook
						m.sumDepth--
						panic(r)
					default:
						m.writeHook = outerHook
						m.sumDepth--
						panic(r)
					}
				}
			}()
			res.val = m.callFnBody(fn, args, env)
		}()
		if len(m.inputs) != outerInputs {
			panic("ENGINE: summarized function " + fn.String() + " creates nondeterministic inputs")
		}
		for _, p := range m.pending {
			stack = append(stack, append([]int(nil), p[outerPos:]...))
		}
		if dropped {
			lost = true
		} else {
			res.cond = m.ctx.And(m.pc[outerPCLen:]...)
			results = append(results, res)
		}
		for k, v := range m.nameCount {
			if v > maxNames[k] {
				maxNames[k] = v
			}
		}
		restore()
	}
	m.writeHook = outerHook
	m.sumDepth--
	m.trace = outerTrace
	m.pos = outerPos
	m.pending = outerPending
	nc := make(map[string]int, len(outerNames))
	for k, v := range outerNames {
		nc[k] = v
	}
	for k, v := range maxNames {
		if v > nc[k] {
			nc[k] = v
		}
	}
	m.nameCount = nc

	sm := &summary{lost: lost}
	idx := map[string]int{}
	for _, r := range results {
		var k string
		if r.panic != nil {
			k = "panic:" + r.panic.msg
		} else {
			k = m.shapeKey(r.val)
		}
		i, ok := idx[k]
		if !ok {
			i = len(sm.groups)
			idx[k] = i
			sm.groups = append(sm.groups, nil)
			sm.keys = append(sm.keys, k)
		}
		sm.groups[i] = append(sm.groups[i], r)
	}
	// deterministic group order
	order := make([]int, len(sm.groups))
	for i := range order {
		order[i] = i
	}
	sort.SliceStable(order, func(a, b int) bool { return sm.keys[order[a]] < sm.keys[order[b]] })
	gs := make([][]subResult, len(order))
	ks := make([]string, len(order))
	for i, o := range order {
		gs[i], ks[i] = sm.groups[o], sm.keys[o]
	}
	sm.groups, sm.keys = gs, ks
	var allc []*sym.Term
	for _, r := range results {
		allc = append(allc, r.cond)
	}
	sm.all = m.ctx.Or(allc...)
	return sm
}

// eqSelf wraps terms so that closure() can collect their variables: it returns
// the variable terms themselves (as pseudo-conjuncts).
func eqSelf(m *Machine, ts []*sym.Term) []*sym.Term {
	seen := map[int]bool{}
	var out []*sym.Term
	for _, t := range ts {
		for _, id := range m.varsOf(t) {
			if !seen[id] {
				seen[id] = true
				out = append(out, m.varTerm(id))
			}
		}
	}
	return out
}

func valueTerms2(m *Machine, v Value) []*sym.Term {
	switch x := v.(type) {
	case Slice:
		var out []*sym.Term
		if x.Arr == nil {
			return nil
		}
		for i := 0; i < x.Len; i++ {
			if k := x.Arr.Kids[x.Off+i]; k != nil && k.leaf {
				out = append(out, valueTerms2(m, k.V)...)
			}
		}
		return out
	case Tuple:
		var out []*sym.Term
		for _, e := range x {
			out = append(out, valueTerms2(m, e)...)
		}
		return out
	}
	return valueTerms(v)
}
