package exec

import (
	"fmt"
	"go/constant"
	"go/types"

	"golang.org/x/tools/go/ssa"

	"verif/engine/sym"
)

// Value is one of: *sym.Term (bool / integer), *Str, Ptr, SymPtr, Slice,
// *Struct, *Array, Map, Iface, *Closure, Tuple, Float, *Opaque.
type Value interface{}

type Str struct{ B []*sym.Term }

type Ptr struct{ C *Cell }

// SymPtr addresses Arr.Kids[Idx] for a symbolic (64-bit) Idx proven in range.
type SymPtr struct {
	Arr *Cell
	Off int
	Idx *sym.Term
}

type Slice struct {
	Arr           *Cell
	Off, Len, Cap int
}

type Struct struct{ F []Value }
type Array struct{ E []Value }
type Map struct{ M *MapObj }
type Iface struct {
	T types.Type
	V Value
}
type Closure struct {
	Fn  *ssa.Function
	Env []Value
}
type Tuple []Value
type Float struct{ V float64 }

// Opaque carries a native engine object (template, iterator, ...).
type Opaque struct{ X interface{} }

type Cell struct {
	ID   int
	T    types.Type
	Kids []*Cell // struct fields or array elements (array kids are lazy)
	V    Value   // leaf
	leaf bool
	Col  string // colour (C11/C12)
	Tag  string
}

type mapEntry struct {
	K   Value
	V   *Cell
	Del bool
}

type MapObj struct {
	ID      int
	KT, VT  types.Type
	Entries []*mapEntry
	Col     string
}

func (m *MapObj) live() []*mapEntry {
	var out []*mapEntry
	for _, e := range m.Entries {
		if !e.Del {
			out = append(out, e)
		}
	}
	return out
}

func intWidth(b *types.Basic) (w int, signed bool, ok bool) {
	switch b.Kind() {
	case types.Int8:
		return 8, true, true
	case types.Int16:
		return 16, true, true
	case types.Int32, types.UntypedRune:
		return 32, true, true
	case types.Int64, types.Int, types.UntypedInt:
		return 64, true, true
	case types.Uint8:
		return 8, false, true
	case types.Uint16:
		return 16, false, true
	case types.Uint32:
		return 32, false, true
	case types.Uint64, types.Uint, types.Uintptr:
		return 64, false, true
	}
	return 0, false, false
}

func isSigned(t types.Type) bool {
	if b, ok := t.Underlying().(*types.Basic); ok {
		_, s, _ := intWidth(b)
		return s
	}
	return false
}

func (m *Machine) newCell(t types.Type) *Cell {
	m.cellSeq++
	c := &Cell{ID: m.cellSeq, T: t}
	switch u := t.Underlying().(type) {
	case *types.Struct:
		c.Kids = make([]*Cell, u.NumFields())
		for i := range c.Kids {
			c.Kids[i] = m.newCell(u.Field(i).Type())
		}
	case *types.Array:
		c.Kids = make([]*Cell, u.Len())
	default:
		c.leaf = true
		c.V = m.zero(t)
	}
	return c
}

func (m *Machine) newArrayCell(elem types.Type, n int) *Cell {
	return m.newCell(types.NewArray(elem, int64(n)))
}

func (m *Machine) kid(c *Cell, i int) *Cell {
	if i < 0 || i >= len(c.Kids) {
		m.goPanic(fmt.Sprintf("index out of range [%d] with length %d", i, len(c.Kids)))
	}
	k := c.Kids[i]
	if k == nil {
		et := c.T.Underlying().(*types.Array).Elem()
		k = m.newCell(et)
		k.Col = c.Col
		c.Kids[i] = k
	}
	return k
}

func (m *Machine) load(c *Cell) Value {
	if c.leaf {
		if m.readHook != nil {
			m.readHook(c)
		}
		return c.V
	}
	switch u := c.T.Underlying().(type) {
	case *types.Struct:
		s := &Struct{F: make([]Value, len(c.Kids))}
		for i, k := range c.Kids {
			s.F[i] = m.load(k)
		}
		return s
	case *types.Array:
		a := &Array{E: make([]Value, len(c.Kids))}
		var z Value
		for i, k := range c.Kids {
			if k == nil {
				if z == nil {
					z = m.zero(u.Elem())
				}
				a.E[i] = z
			} else {
				a.E[i] = m.load(k)
			}
		}
		return a
	}
	panic("load: bad cell")
}

func (m *Machine) store(c *Cell, v Value) {
	if c.leaf {
		if m.writeHook != nil {
			m.writeHook(c, c.V, v)
		}
		c.V = v
		return
	}
	switch c.T.Underlying().(type) {
	case *types.Struct:
		s := v.(*Struct)
		for i, k := range c.Kids {
			m.store(k, s.F[i])
		}
	case *types.Array:
		a := v.(*Array)
		for i := range c.Kids {
			m.store(m.kid(c, i), a.E[i])
		}
	}
}

func (m *Machine) zero(t types.Type) Value {
	switch u := t.Underlying().(type) {
	case *types.Basic:
		if u.Info()&types.IsBoolean != 0 {
			return m.ctx.False
		}
		if w, _, ok := intWidth(u); ok {
			return m.ctx.BV(0, w)
		}
		if u.Info()&types.IsString != 0 {
			return m.emptyStr
		}
		if u.Info()&types.IsFloat != 0 {
			return Float{}
		}
		if u.Kind() == types.UnsafePointer {
			return Ptr{}
		}
		if u.Kind() == types.UntypedNil {
			return Iface{}
		}
		panic("zero: basic " + u.String())
	case *types.Pointer:
		return Ptr{}
	case *types.Slice:
		return Slice{}
	case *types.Map:
		return Map{}
	case *types.Signature:
		return (*Closure)(nil)
	case *types.Interface:
		return Iface{}
	case *types.Chan:
		return &Opaque{}
	case *types.Struct:
		s := &Struct{F: make([]Value, u.NumFields())}
		for i := range s.F {
			s.F[i] = m.zero(u.Field(i).Type())
		}
		return s
	case *types.Array:
		a := &Array{E: make([]Value, u.Len())}
		if u.Len() > 0 {
			z := m.zero(u.Elem())
			for i := range a.E {
				a.E[i] = z
			}
		}
		return a
	case *types.Tuple:
		tu := make(Tuple, u.Len())
		for i := range tu {
			tu[i] = m.zero(u.At(i).Type())
		}
		return tu
	}
	panic(fmt.Sprintf("zero: %T %s", t, t))
}

func (m *Machine) str(s string) *Str {
	if s == "" {
		return m.emptyStr
	}
	if v, ok := m.strCache[s]; ok {
		return v
	}
	b := make([]*sym.Term, len(s))
	for i := 0; i < len(s); i++ {
		b[i] = m.ctx.BV(uint64(s[i]), 8)
	}
	v := &Str{B: b}
	if len(m.strCache) < 100000 {
		m.strCache[s] = v
	}
	return v
}

// concreteStr returns the Go string if all bytes are constants.
func concreteStr(s *Str) (string, bool) {
	b := make([]byte, len(s.B))
	for i, t := range s.B {
		if !t.IsConst() {
			return "", false
		}
		b[i] = byte(t.Val)
	}
	return string(b), true
}

func (m *Machine) constValue(c *ssa.Const) Value {
	t := c.Type()
	if c.Value == nil {
		return m.zero(t)
	}
	if _, ok := t.Underlying().(*types.Interface); ok {
		// constant converted to interface should not occur (MakeInterface is explicit)
		panic("const of interface type")
	}
	b, ok := t.Underlying().(*types.Basic)
	if !ok {
		panic(fmt.Sprintf("const of type %s", t))
	}
	switch {
	case b.Info()&types.IsBoolean != 0:
		return m.ctx.Bool(constant.BoolVal(c.Value))
	case b.Info()&types.IsString != 0:
		return m.str(constant.StringVal(c.Value))
	case b.Info()&types.IsInteger != 0:
		w, _, _ := intWidth(b)
		if i, ok := constant.Int64Val(constant.ToInt(c.Value)); ok {
			return m.ctx.BV(uint64(i), w)
		}
		u, _ := constant.Uint64Val(constant.ToInt(c.Value))
		return m.ctx.BV(u, w)
	case b.Info()&types.IsFloat != 0:
		f, _ := constant.Float64Val(c.Value)
		return Float{f}
	}
	panic(fmt.Sprintf("const kind %s", t))
}

// valueEq builds the equality formula of two values of the same static type.
func (m *Machine) valueEq(a, b Value) *sym.Term {
	c := m.ctx
	switch x := a.(type) {
	case *sym.Term:
		return c.Eq(x, b.(*sym.Term))
	case *Str:
		y := b.(*Str)
		if len(x.B) != len(y.B) {
			return c.False
		}
		parts := make([]*sym.Term, 0, len(x.B))
		for i := range x.B {
			e := c.Eq(x.B[i], y.B[i])
			if e.IsFalse() {
				return c.False
			}
			parts = append(parts, e)
		}
		return c.And(parts...)
	case Ptr:
		switch y := b.(type) {
		case Ptr:
			return c.Bool(x.C == y.C)
		case SymPtr:
			return c.False
		}
	case SymPtr:
		if y, ok := b.(SymPtr); ok && y.Arr == x.Arr {
			return c.Eq(x.Idx, y.Idx)
		}
		return c.False
	case Iface:
		y, ok := b.(Iface)
		if !ok {
			// comparing interface with concrete: wrap
			return c.False
		}
		if x.T == nil || y.T == nil {
			return c.Bool(x.T == nil && y.T == nil)
		}
		if !types.Identical(x.T, y.T) {
			return c.False
		}
		return m.valueEq(x.V, y.V)
	case *Struct:
		y := b.(*Struct)
		parts := make([]*sym.Term, 0, len(x.F))
		for i := range x.F {
			parts = append(parts, m.valueEq(x.F[i], y.F[i]))
		}
		return c.And(parts...)
	case *Array:
		y := b.(*Array)
		parts := make([]*sym.Term, 0, len(x.E))
		for i := range x.E {
			parts = append(parts, m.valueEq(x.E[i], y.E[i]))
		}
		return c.And(parts...)
	case *Closure:
		y := b.(*Closure)
		return c.Bool(x == nil && y == nil || x == y)
	case Slice:
		y := b.(Slice)
		return c.Bool(x.Arr == nil && y.Arr == nil)
	case Map:
		y := b.(Map)
		return c.Bool(x.M == y.M)
	case *Opaque:
		y, _ := b.(*Opaque)
		return c.Bool(x == y || (x != nil && y != nil && x.X == nil && y.X == nil))
	case Float:
		return c.Bool(x.V == b.(Float).V)
	}
	panic(fmt.Sprintf("valueEq: %T vs %T", a, b))
}

// strLess builds a <lex b over byte vectors.
func (m *Machine) strLess(a, b *Str, orEqual bool) *sym.Term {
	c := m.ctx
	// build from the end
	n := len(a.B)
	if len(b.B) < n {
		n = len(b.B)
	}
	var tail *sym.Term
	switch {
	case len(a.B) < len(b.B):
		tail = c.True
	case len(a.B) > len(b.B):
		tail = c.False
	default:
		tail = c.Bool(orEqual)
	}
	for i := n - 1; i >= 0; i-- {
		tail = c.Ite(c.Eq(a.B[i], b.B[i]), tail, c.Ult(a.B[i], b.B[i]))
	}
	return tail
}

func typeName(t types.Type) string {
	return types.TypeString(t, nil)
}
