package exec

import (
	"fmt"
	"go/types"
	"strings"
	"text/template/parse"

	"golang.org/x/tools/go/ssa"

	"verif/engine/sym"
)

// A native interpreter for text/template over symbolic values. The template
// TEXT is whatever constant reaches (*Template).Parse during symbolic
// execution of the real code; it is parsed with the real text/template/parse;
// helper functions registered through Funcs are the repo's closures, called
// through the executor. Only the tree walk below is engine code (validated
// natively: every whole-package witness is rendered by the real text/template).

type tmplState struct {
	name  string
	funcs *MapObj
	tree  *parse.Tree
}

type tval struct {
	v Value
	t types.Type
}

func (m *Machine) tmplOf(p Value) *tmplState {
	c := p.(Ptr).C
	if c == nil {
		m.goPanic("nil *template.Template")
	}
	st, _ := m.ext[fmt.Sprintf("tmpl:%d", c.ID)].(*tmplState)
	if st == nil {
		st = &tmplState{}
		m.ext[fmt.Sprintf("tmpl:%d", c.ID)] = st
	}
	return st
}

var tmplBuiltins = map[string]bool{"and": true, "or": true, "not": true, "eq": true, "ne": true, "len": true, "print": true, "printf": true, "index": true, "lt": true, "gt": true, "le": true, "ge": true}

func init() {
	reg("text/template.New", func(m *Machine, fn *ssa.Function, a []Value) Value {
		tt := fn.Signature.Results().At(0).Type().(*types.Pointer).Elem()
		c := m.newCell(tt)
		st := m.tmplOf(Ptr{c})
		st.name = m.argStr(a[0])
		return Ptr{c}
	})
	reg("(*text/template.Template).Funcs", func(m *Machine, fn *ssa.Function, a []Value) Value {
		st := m.tmplOf(a[0])
		fm := a[1].(Map).M
		if st.funcs == nil {
			st.funcs = fm
		} else if fm != nil {
			st.funcs.Entries = append(st.funcs.Entries, fm.Entries...)
		}
		return a[0]
	})
	reg("(*text/template.Template).Parse", func(m *Machine, fn *ssa.Function, a []Value) Value {
		st := m.tmplOf(a[0])
		text, ok := concreteStr(a[1].(*Str))
		if !ok {
			m.notEnc("template text is not a constant")
		}
		names := map[string]any{}
		for k := range tmplBuiltins {
			names[k] = true
		}
		if st.funcs != nil {
			for _, e := range st.funcs.live() {
				if s, ok := concreteStr(e.K.(*Str)); ok {
					names[s] = true
				}
			}
		}
		key := "tmpltree:" + st.name + ":" + text
		m.P.TreeMu.Lock()
		tr := m.P.TreeCache[key]
		m.P.TreeMu.Unlock()
		if tr == nil {
			trees, err := parse.Parse(st.name, text, "", "", names)
			if err != nil {
				// the real Parse would return this error
				return Tuple{Ptr{}, m.errorf("template: "+err.Error(), nil)}
			}
			tr = trees[st.name]
			m.P.TreeMu.Lock()
			m.P.TreeCache[key] = tr
			m.P.TreeMu.Unlock()
		}
		st.tree = tr
		return Tuple{a[0], Iface{}}
	})
	reg("(*text/template.Template).Execute", func(m *Machine, fn *ssa.Function, a []Value) Value {
		st := m.tmplOf(a[0])
		if st.tree == nil {
			return m.errorf("template: incomplete or empty template", nil)
		}
		w := a[1].(Iface)
		data := a[2].(Iface)
		ex := &tmplExec{m: m, st: st, w: w}
		dot := tval{data.V, data.T}
		ex.vars = []tvar{{"$", dot}}
		if err := ex.walk(dot, st.tree.Root); err != nil {
			return *err
		}
		return Iface{}
	})
}

type tvar struct {
	name string
	val  tval
}

type tmplExec struct {
	m    *Machine
	st   *tmplState
	w    Iface
	vars []tvar
}

func (ex *tmplExec) write(b []*sym.Term) *Iface {
	if len(b) == 0 {
		return nil
	}
	res := ex.m.CallMethod(ex.w, "Write", ex.m.makeByteSlice(b)).(Tuple)
	if e := res[1].(Iface); e.T != nil {
		return &e
	}
	return nil
}

func (ex *tmplExec) walk(dot tval, n parse.Node) *Iface {
	m := ex.m
	switch n := n.(type) {
	case *parse.ListNode:
		if n == nil {
			return nil
		}
		for _, c := range n.Nodes {
			if err := ex.walk(dot, c); err != nil {
				return err
			}
		}
	case *parse.TextNode:
		return ex.write(m.str(string(n.Text)).B)
	case *parse.CommentNode:
	case *parse.ActionNode:
		v := ex.pipeline(dot, n.Pipe)
		if len(n.Pipe.Decl) == 0 {
			return ex.write(ex.print(v))
		}
	case *parse.IfNode:
		mark := len(ex.vars)
		v := ex.pipeline(dot, n.Pipe)
		var err *Iface
		if ex.truth(v) {
			err = ex.walk(dot, n.List)
		} else if n.ElseList != nil {
			err = ex.walk(dot, n.ElseList)
		}
		ex.vars = ex.vars[:mark]
		return err
	case *parse.WithNode:
		mark := len(ex.vars)
		v := ex.pipeline(dot, n.Pipe)
		var err *Iface
		if ex.truth(v) {
			err = ex.walk(v, n.List)
		} else if n.ElseList != nil {
			err = ex.walk(dot, n.ElseList)
		}
		ex.vars = ex.vars[:mark]
		return err
	case *parse.RangeNode:
		return ex.rangeNode(dot, n)
	default:
		m.notEnc("template node %T", n)
	}
	return nil
}

func (ex *tmplExec) rangeNode(dot tval, n *parse.RangeNode) *Iface {
	m := ex.m
	mark := len(ex.vars)
	defer func() { ex.vars = ex.vars[:mark] }()
	// evaluate the pipeline without assigning the declared variables
	decl := n.Pipe.Decl
	saved := n.Pipe.Decl
	_ = saved
	v := ex.pipelineNoDecl(dot, n.Pipe)
	v = ex.indirect(v)
	one := func(idx, elem tval) *Iface {
		mk := len(ex.vars)
		if len(decl) == 1 {
			ex.vars = append(ex.vars, tvar{decl[0].Ident[0], elem})
		} else if len(decl) == 2 {
			ex.vars = append(ex.vars, tvar{decl[0].Ident[0], idx}, tvar{decl[1].Ident[0], elem})
		}
		err := ex.walk(elem, n.List)
		ex.vars = ex.vars[:mk]
		return err
	}
	count := 0
	switch tt := v.t.Underlying().(type) {
	case *types.Slice:
		s := v.v.(Slice)
		for i := 0; i < s.Len; i++ {
			count++
			e := m.load(m.kid(s.Arr, s.Off+i))
			if err := one(tval{m.ctx.BV(uint64(i), 64), types.Typ[types.Int]}, tval{e, tt.Elem()}); err != nil {
				return err
			}
		}
	case *types.Map:
		mp := v.v.(Map)
		if mp.M != nil {
			ents := mp.M.live()
			// sorted by key (strings), as text/template does
			sorted := make([]*mapEntry, 0, len(ents))
			for _, e := range ents {
				i := len(sorted)
				sorted = append(sorted, e)
				for i > 0 && m.branch(m.strLess(e.K.(*Str), sorted[i-1].K.(*Str), false)) {
					sorted[i] = sorted[i-1]
					i--
				}
				sorted[i] = e
			}
			for _, e := range sorted {
				count++
				if err := one(tval{e.K, tt.Key()}, tval{m.load(e.V), tt.Elem()}); err != nil {
					return err
				}
			}
		}
	default:
		m.notEnc("template range over %s", v.t)
	}
	if count == 0 && n.ElseList != nil {
		return ex.walk(dot, n.ElseList)
	}
	return nil
}

func (ex *tmplExec) indirect(v tval) tval {
	for {
		switch t := v.t.Underlying().(type) {
		case *types.Pointer:
			p := v.v.(Ptr)
			if p.C == nil {
				return v
			}
			v = tval{ex.m.load(p.C), t.Elem()}
			continue
		case *types.Interface:
			i := v.v.(Iface)
			if i.T == nil {
				return v
			}
			v = tval{i.V, i.T}
			continue
		}
		return v
	}
}

func (ex *tmplExec) truth(v tval) bool {
	m := ex.m
	if v.t == nil {
		return false
	}
	switch t := v.t.Underlying().(type) {
	case *types.Basic:
		switch {
		case t.Info()&types.IsBoolean != 0:
			return m.branch(v.v.(*sym.Term))
		case t.Info()&types.IsString != 0:
			return len(v.v.(*Str).B) > 0
		case t.Info()&types.IsInteger != 0:
			x := v.v.(*sym.Term)
			return m.branch(m.ctx.Not(m.ctx.Eq(x, m.ctx.BV(0, x.Width))))
		}
	case *types.Slice:
		return v.v.(Slice).Len > 0
	case *types.Map:
		mp := v.v.(Map)
		return mp.M != nil && len(mp.M.live()) > 0
	case *types.Pointer:
		return v.v.(Ptr).C != nil
	case *types.Interface:
		i := v.v.(Iface)
		if i.T == nil {
			return false
		}
		return ex.truth(tval{i.V, i.T})
	case *types.Struct:
		return true
	case *types.Signature:
		return v.v.(*Closure) != nil
	}
	m.notEnc("template truth of %s", v.t)
	return false
}

func (ex *tmplExec) print(v tval) []*sym.Term {
	m := ex.m
	if v.t == nil {
		return m.str("<no value>").B
	}
	if named, ok := v.t.(*types.Named); ok && named.Obj().Pkg() != nil && named.Obj().Pkg().Path() == "time" && named.Obj().Name() == "Time" {
		// time.Time.String(): opaque 29-byte rendering (depends on the zone database)
		out := make([]*sym.Term, 29)
		for i := range out {
			out[i] = m.fresh("timestr", 8)
			// printable ASCII, no line breaks
			m.addPC(m.ctx.And(m.ctx.Ule(m.ctx.BV(0x20, 8), out[i]), m.ctx.Ule(out[i], m.ctx.BV(0x7e, 8))))
		}
		return out
	}
	return m.fmtArg('v', Iface{T: v.t, V: v.v}).B
}

func (ex *tmplExec) lookupVar(name string) tval {
	for i := len(ex.vars) - 1; i >= 0; i-- {
		if ex.vars[i].name == name {
			return ex.vars[i].val
		}
	}
	ex.m.notEnc("template variable %s undefined", name)
	return tval{}
}

func (ex *tmplExec) field(v tval, name string) tval {
	m := ex.m
	v = ex.indirect(v)
	if p, ok := v.v.(Ptr); ok && p.C == nil {
		m.goPanic("template: nil pointer evaluating field " + name)
	}
	obj, index, _ := types.LookupFieldOrMethod(v.t, true, nil, name)
	fv, ok := obj.(*types.Var)
	if !ok || !fv.IsField() {
		// exported lookups need the package for unexported names only; retry with methods unsupported
		m.notEnc("template: field %s of %s", name, v.t)
	}
	cur := v
	for _, ix := range index {
		cur = ex.indirect(cur)
		st := cur.t.Underlying().(*types.Struct)
		cur = tval{cur.v.(*Struct).F[ix], st.Field(ix).Type()}
	}
	return cur
}

func (ex *tmplExec) pipeline(dot tval, p *parse.PipeNode) tval {
	v := ex.pipelineNoDecl(dot, p)
	for _, d := range p.Decl {
		if p.IsAssign {
			for i := len(ex.vars) - 1; i >= 0; i-- {
				if ex.vars[i].name == d.Ident[0] {
					ex.vars[i].val = v
					break
				}
			}
		} else {
			ex.vars = append(ex.vars, tvar{d.Ident[0], v})
		}
	}
	return v
}

func (ex *tmplExec) pipelineNoDecl(dot tval, p *parse.PipeNode) tval {
	var v tval
	have := false
	for _, c := range p.Cmds {
		v = ex.command(dot, c, v, have)
		have = true
	}
	return v
}

func (ex *tmplExec) command(dot tval, c *parse.CommandNode, final tval, hasFinal bool) tval {
	m := ex.m
	first := c.Args[0]
	switch n := first.(type) {
	case *parse.IdentifierNode:
		return ex.callFunc(dot, n.Ident, c.Args[1:], final, hasFinal)
	case *parse.FieldNode, *parse.VariableNode, *parse.ChainNode:
		if len(c.Args) > 1 || hasFinal {
			m.notEnc("template: method call with arguments")
		}
		return ex.arg(dot, first)
	case *parse.PipeNode:
		return ex.pipeline(dot, n)
	}
	if len(c.Args) > 1 || hasFinal {
		m.notEnc("template: non-function command with arguments")
	}
	return ex.arg(dot, first)
}

func (ex *tmplExec) arg(dot tval, n parse.Node) tval {
	m := ex.m
	switch n := n.(type) {
	case *parse.DotNode:
		return dot
	case *parse.FieldNode:
		v := dot
		for _, id := range n.Ident {
			v = ex.field(v, id)
		}
		return v
	case *parse.VariableNode:
		v := ex.lookupVar(n.Ident[0])
		for _, id := range n.Ident[1:] {
			v = ex.field(v, id)
		}
		return v
	case *parse.ChainNode:
		v := ex.arg(dot, n.Node)
		for _, id := range n.Field {
			v = ex.field(v, id)
		}
		return v
	case *parse.StringNode:
		return tval{m.str(n.Text), types.Typ[types.String]}
	case *parse.NumberNode:
		if n.IsInt {
			return tval{m.ctx.BV(uint64(n.Int64), 64), types.Typ[types.Int]}
		}
	case *parse.BoolNode:
		return tval{m.ctx.Bool(n.True), types.Typ[types.Bool]}
	case *parse.PipeNode:
		return ex.pipeline(dot, n)
	case *parse.NilNode:
		return tval{Iface{}, nil}
	case *parse.IdentifierNode:
		return ex.callFunc(dot, n.Ident, nil, tval{}, false)
	}
	m.notEnc("template argument %T", n)
	return tval{}
}

func (ex *tmplExec) callFunc(dot tval, name string, argNodes []parse.Node, final tval, hasFinal bool) tval {
	m := ex.m
	var args []tval
	for _, a := range argNodes {
		args = append(args, ex.arg(dot, a))
	}
	if hasFinal {
		args = append(args, final)
	}
	// user functions first
	if ex.st.funcs != nil {
		for _, e := range ex.st.funcs.live() {
			if s, ok := concreteStr(e.K.(*Str)); ok && s == name {
				fv := m.load(e.V).(Iface)
				cl := fv.V.(*Closure)
				sig := fv.T.Underlying().(*types.Signature)
				vals := make([]Value, len(args))
				for i, a := range args {
					pt := sig.Params().At(i).Type()
					vals[i] = ex.assignable(a, pt)
				}
				res := m.CallClosure(cl, vals...)
				if sig.Results().Len() == 2 {
					t := res.(Tuple)
					if e := t[1].(Iface); e.T != nil {
						m.notEnc("template function %s returned an error", name)
					}
					return tval{t[0], sig.Results().At(0).Type()}
				}
				return tval{res, sig.Results().At(0).Type()}
			}
		}
	}
	switch name {
	case "eq", "ne":
		if len(args) != 2 {
			m.notEnc("template %s with %d args", name, len(args))
		}
		a, b := ex.indirect(args[0]), ex.indirect(args[1])
		eq := ex.basicEq(a, b)
		if name == "ne" {
			eq = m.ctx.Not(eq)
		}
		return tval{eq, types.Typ[types.Bool]}
	case "not":
		return tval{m.ctx.Bool(!ex.truth(args[0])), types.Typ[types.Bool]}
	case "and":
		for i, a := range args {
			if !ex.truth(a) || i == len(args)-1 {
				return a
			}
		}
	case "or":
		for i, a := range args {
			if ex.truth(a) || i == len(args)-1 {
				return a
			}
		}
	case "len":
		a := ex.indirect(args[0])
		switch x := a.v.(type) {
		case *Str:
			return tval{m.ctx.BV(uint64(len(x.B)), 64), types.Typ[types.Int]}
		case Slice:
			return tval{m.ctx.BV(uint64(x.Len), 64), types.Typ[types.Int]}
		}
	}
	m.notEnc("template function %s", name)
	return tval{}
}

func (ex *tmplExec) basicEq(a, b tval) *sym.Term {
	m := ex.m
	switch x := a.v.(type) {
	case *Str:
		if y, ok := b.v.(*Str); ok {
			return m.valueEq(x, y)
		}
	case *sym.Term:
		if y, ok := b.v.(*sym.Term); ok {
			if x.Width != y.Width {
				if x.Width < y.Width {
					x = m.ctx.Sext(x, y.Width)
				} else {
					y = m.ctx.Sext(y, x.Width)
				}
			}
			return m.ctx.Eq(x, y)
		}
	}
	m.notEnc("template eq on %s and %s", a.t, b.t)
	return nil
}

// assignable converts a template value to a parameter type (interface wrapping only).
func (ex *tmplExec) assignable(a tval, pt types.Type) Value {
	if _, ok := pt.Underlying().(*types.Interface); ok {
		if _, isI := a.t.Underlying().(*types.Interface); isI {
			return a.v
		}
		return Iface{T: a.t, V: a.v}
	}
	if _, isI := a.t.Underlying().(*types.Interface); isI {
		i := a.v.(Iface)
		return i.V
	}
	return a.v
}

var _ = strings.Join
