package exec

import (
	"go/types"

	"golang.org/x/tools/go/ssa"

	"verif/engine/sym"
)

// Contract model of dario.cat/mergo.Merge (reflection-driven; its own code is
// not executable). It follows deepMerge of mergo v1.0.1 for the kinds that
// occur in nfpm.Info, including its aliasing behaviour:
//
//	struct with exported fields: field by field; struct without (time.Time): replaced when overwriting
//	string/int/bool/func: dst = src iff src non-empty and (dst empty or WithOverride)
//	slice: dst = src (SAME backing array) iff src non-empty and (dst empty or WithOverride)
//	map: created when dst is nil, then merged key by key into dst's map
//	pointer: nil src ignored; nil dst takes the SAME pointer; both set: merged into dst's pointee
//
// Options recognised (by function identity): WithOverride, WithoutDereference; others are not encodable.
func init() {
	reg("dario.cat/mergo.Merge", func(m *Machine, fn *ssa.Function, a []Value) Value {
		dst := a[0].(Iface)
		src := a[1].(Iface)
		overwrite, noDeref := false, false
		for _, o := range m.sliceElems(a[2].(Slice)) {
			cl, _ := o.(*Closure)
			if cl == nil {
				continue
			}
			switch cl.Fn.String() {
			case "dario.cat/mergo.WithOverride":
				overwrite = true
			case "dario.cat/mergo.WithoutDereference":
				noDeref = true
			default:
				m.notEnc("mergo option %s", cl.Fn)
			}
		}
		dp, ok := dst.T.Underlying().(*types.Pointer)
		if !ok || dst.V.(Ptr).C == nil {
			return m.errorf("dst must be a pointer", nil)
		}
		st := src.T
		sv := src.V
		if sp, ok := st.Underlying().(*types.Pointer); ok {
			p := sv.(Ptr)
			if p.C == nil {
				return Iface{}
			}
			st = sp.Elem()
			sv = m.load(p.C)
		}
		if !types.Identical(dp.Elem(), st) {
			return m.errorf("src and dst must be of same type", nil)
		}
		m.mergoNoDeref = noDeref
		m.mergoDeep(dst.V.(Ptr).C, sv, st, overwrite)
		m.mergoNoDeref = false
		return Iface{}
	})
}

func hasMergeableFields(st *types.Struct) bool {
	for i := 0; i < st.NumFields(); i++ {
		f := st.Field(i)
		if f.Anonymous() {
			if s2, ok := f.Type().Underlying().(*types.Struct); ok {
				if hasMergeableFields(s2) {
					return true
				}
				continue
			}
		}
		if f.Exported() {
			return true
		}
	}
	return false
}

// isEmpty returns a Boolean term for mergo's isEmptyValue.
func (m *Machine) mergoEmpty(v Value, t types.Type) *sym.Term {
	c := m.ctx
	switch x := v.(type) {
	case *Str:
		return c.Bool(len(x.B) == 0)
	case Slice:
		return c.Bool(x.Len == 0)
	case Map:
		return c.Bool(x.M == nil || len(x.M.live()) == 0)
	case *sym.Term:
		if x.IsBool() {
			return c.Not(x)
		}
		return c.Eq(x, c.BV(0, x.Width))
	case Ptr:
		if x.C == nil {
			return c.True
		}
		if m.mergoNoDeref {
			return c.False // WithoutDereference: a non-nil pointer is never empty
		}
		return m.mergoEmpty(m.load(x.C), t.Underlying().(*types.Pointer).Elem())
	case *Closure:
		return c.Bool(x == nil)
	case Iface:
		if x.T == nil {
			return c.True
		}
		return m.mergoEmpty(x.V, x.T)
	case *Array:
		return c.Bool(len(x.E) == 0)
	}
	return c.False // structs
}

func (m *Machine) mergoDeep(dst *Cell, src Value, t types.Type, overwrite bool) {
	c := m.ctx
	switch u := t.Underlying().(type) {
	case *types.Struct:
		if hasMergeableFields(u) {
			sv := src.(*Struct)
			for i := 0; i < u.NumFields(); i++ {
				if !u.Field(i).Exported() && !u.Field(i).Anonymous() {
					continue // unexported fields cannot be set through reflection
				}
				m.mergoDeep(dst.Kids[i], sv.F[i], u.Field(i).Type(), overwrite)
			}
			return
		}
		if overwrite {
			m.store(dst, src)
		}
	case *types.Map:
		sm := src.(Map)
		dm := m.load(dst).(Map)
		if dm.M == nil && sm.M != nil {
			m.mapSeq++
			dm = Map{&MapObj{ID: m.mapSeq, KT: u.Key(), VT: u.Elem()}}
			m.store(dst, dm)
		}
		if sm.M == nil {
			return
		}
		for _, e := range sm.M.live() {
			sv := m.load(e.V)
			de := m.mapFind(dm.M, e.K)
			switch u.Elem().Underlying().(type) {
			case *types.Struct, *types.Pointer, *types.Map, *types.Slice:
				m.notEnc("mergo model: map of %s", u.Elem())
			}
			set := de == nil
			if !set {
				if overwrite {
					set = true
				} else {
					set = m.branch(m.mergoEmpty(m.load(de.V), u.Elem()))
				}
			}
			if set {
				m.mapUpdate(dm, e.K, sv)
			}
		}
	case *types.Slice:
		ss := src.(Slice)
		ds := m.load(dst).(Slice)
		if ss.Len > 0 && (overwrite || ds.Len == 0) {
			m.store(dst, ss) // same backing array
		}
	case *types.Pointer:
		sp := src.(Ptr)
		if sp.C == nil {
			return
		}
		dp := m.load(dst).(Ptr)
		if dp.C == nil {
			m.store(dst, sp) // same pointer
			return
		}
		if m.mergoNoDeref {
			// WithoutDereference: pointers are not merged through; a pointer to a
			// non-struct replaces dst when overwriting, a pointer to a struct is left alone
			if _, isStruct := u.Elem().Underlying().(*types.Struct); !isStruct && overwrite {
				m.store(dst, sp)
			}
			return
		}
		m.mergoDeep(dp.C, m.load(sp.C), u.Elem(), overwrite)
	case *types.Interface:
		si := src.(Iface)
		if si.T == nil {
			return
		}
		di := m.load(dst).(Iface)
		if di.T == nil || overwrite {
			m.store(dst, si)
		}
	case *types.Signature:
		sf := src.(*Closure)
		df := m.load(dst).(*Closure)
		if sf != nil && (df == nil || overwrite) {
			m.store(dst, sf)
		}
	case *types.Basic:
		dv := m.load(dst)
		srcEmpty := m.mergoEmpty(src, t)
		var must *sym.Term
		if overwrite {
			must = c.Not(srcEmpty)
		} else {
			must = c.And(m.mergoEmpty(dv, t), c.Not(srcEmpty))
		}
		switch {
		case must.IsTrue():
			m.store(dst, src)
		case must.IsFalse():
		default:
			if st, ok := src.(*sym.Term); ok {
				m.store(dst, c.Ite(must, st, dv.(*sym.Term)))
			} else if m.branch(must) {
				m.store(dst, src)
			}
		}
	case *types.Array:
		m.notEnc("mergo model: array")
	default:
		m.notEnc("mergo model: kind %T", u)
	}
}

// ---------------------------------------------------------------- colouring / frame checks

type writeRec struct {
	cell     *Cell
	old, new Value
	where    string
	synced   bool // performed while holding a lock, inside sync.Once.Do or by an atomic operation
}

// colourValue marks every memory cell reachable from v.
func (m *Machine) colourValue(v Value, col string, seen map[*Cell]bool) {
	switch x := v.(type) {
	case Ptr:
		m.colourCell(x.C, col, seen)
	case Slice:
		if x.Arr != nil {
			x.Arr.Col = col
			for i := 0; i < x.Cap; i++ {
				m.colourCell(m.kid(x.Arr, x.Off+i), col, seen)
			}
		}
	case Map:
		if x.M != nil && x.M.Col == "" {
			x.M.Col = col
			for _, e := range x.M.Entries {
				m.colourValue(e.K, col, seen)
				m.colourCell(e.V, col, seen)
			}
		}
	case Iface:
		if x.T != nil {
			m.colourValue(x.V, col, seen)
		}
	case *Struct:
		for _, f := range x.F {
			m.colourValue(f, col, seen)
		}
	case *Array:
		for _, e := range x.E {
			m.colourValue(e, col, seen)
		}
	case *Closure:
		if x != nil {
			for _, e := range x.Env {
				m.colourValue(e, col, seen)
			}
		}
	}
}

func (m *Machine) colourCell(c *Cell, col string, seen map[*Cell]bool) {
	if c == nil || seen[c] {
		return
	}
	seen[c] = true
	c.Col = col
	if c.leaf {
		m.colourValue(c.V, col, seen)
		return
	}
	for i := range c.Kids {
		if c.Kids[i] == nil {
			if _, ok := c.T.Underlying().(*types.Array); ok {
				m.kid(c, i)
			}
		}
		m.colourCell(c.Kids[i], col, seen)
	}
}

func (m *Machine) installWriteLog() {
	if m.writeLogOn {
		return
	}
	m.writeLogOn = true
	prev := m.writeHook
	m.writeHook = func(c *Cell, old, new Value) {
		if c.Col != "" {
			where := ""
			if n := len(m.stack); n > 0 {
				where = m.stack[n-1]
			}
			m.writes = append(m.writes, writeRec{c, old, new, where, m.syncDepth > 0})
		}
		if prev != nil {
			prev(c, old, new)
		}
	}
}

func init() {
	reg("Snapshot", func(m *Machine, fn *ssa.Function, a []Value) Value {
		name := m.argStr(a[1])
		m.installWriteLog()
		m.colourValue(a[0], name, map[*Cell]bool{})
		return nil
	})
	reg("Changed", func(m *Machine, fn *ssa.Function, a []Value) Value {
		name := m.argStr(a[0])
		var conds []*sym.Term
		for _, w := range m.writes {
			if w.cell.Col != name {
				continue
			}
			var ne *sym.Term
			if w.new == nil || w.old == nil {
				ne = m.ctx.True
			} else {
				ne = m.ctx.Not(m.safeEq(w.old, w.new))
			}
			if ne.IsFalse() {
				continue
			}
			conds = append(conds, ne)
			if len(m.changedWhere) < 8 {
				m.changedWhere = append(m.changedWhere, w.where+" writes "+w.cell.T.String())
			}
		}
		return m.ctx.Or(conds...)
	})
	reg("Written", func(m *Machine, fn *ssa.Function, a []Value) Value {
		name := m.argStr(a[0])
		for _, w := range m.writes {
			if w.cell.Col == name && !w.synced {
				if len(m.changedWhere) < 8 {
					m.changedWhere = append(m.changedWhere, w.where+" writes "+w.cell.T.String())
				}
				return m.ctx.True
			}
		}
		return m.ctx.False
	})
	reg("ChangedWhere", func(m *Machine, fn *ssa.Function, a []Value) Value {
		s := ""
		for i, w := range m.changedWhere {
			if i > 0 {
				s += "; "
			}
			s += w
		}
		return m.str(s)
	})
	reg("GlobalWrites", func(m *Machine, fn *ssa.Function, a []Value) Value {
		// number of writes to package-level variables of the module since EnableGlobalLog
		n := 0
		for _, w := range m.writes {
			if w.cell.Col == "$global" && !w.synced {
				n++
				if len(m.changedWhere) < 8 {
					m.changedWhere = append(m.changedWhere, w.where+" writes global "+w.cell.Tag)
				}
			}
		}
		return m.ctx.BV(uint64(n), 64)
	})
	reg("PooledAccesses", func(m *Machine, fn *ssa.Function, a []Value) Value {
		n := m.pooledAccess
		for _, w := range m.writes {
			if w.cell.Col == "$pooled" {
				n++
			}
		}
		return m.ctx.BV(uint64(n), 64)
	})
	reg("Touch", func(m *Machine, fn *ssa.Function, a []Value) Value {
		// a model's way of saying "this method writes its receiver": one
		// same-value write to the first leaf cell of the pointed-to object
		v := a[0]
		if i, ok := v.(Iface); ok {
			v = i.V
		}
		p, ok := v.(Ptr)
		if !ok || p.C == nil || m.writeHook == nil {
			return nil
		}
		c := p.C
		for depth := 0; c != nil && !c.leaf && depth < 16; depth++ {
			if len(c.Kids) == 0 {
				return nil
			}
			if c.Kids[0] == nil {
				if _, isArr := c.T.Underlying().(*types.Array); !isArr {
					return nil
				}
				m.kid(c, 0)
			}
			c = c.Kids[0]
		}
		if c != nil && c.leaf {
			m.writeHook(c, c.V, c.V)
		}
		return nil
	})
	reg("CallUnmarshalers", func(m *Machine, fn *ssa.Function, a []Value) Value {
		// For every named type of the module reachable from the static type of
		// the decode target that has its own UnmarshalYAML(*yaml.Node) error, call
		// it on a zero value with a zero node (what a reflection-driven decoder
		// does whenever it meets such a value). Returns the number of calls.
		iv, ok := a[0].(Iface)
		if !ok || iv.T == nil {
			return m.ctx.BV(0, 64)
		}
		n := 0
		seen := map[types.Type]bool{}
		var visit func(t types.Type, depth int)
		visit = func(t types.Type, depth int) {
			if t == nil || seen[t] || depth > 12 {
				return
			}
			seen[t] = true
			if named, ok := t.(*types.Named); ok && named.Obj().Pkg() != nil && m.P.InitPkgs[named.Obj().Pkg().Path()] {
				for _, recv := range []types.Type{types.NewPointer(t), t} {
					sel := m.P.Prog.MethodSets.MethodSet(recv).Lookup(named.Obj().Pkg(), "UnmarshalYAML")
					if sel == nil {
						continue
					}
					f := m.P.Prog.MethodValue(sel)
					if f == nil || f.Blocks == nil || f.Signature.Params().Len() != 1 {
						break
					}
					pt, ok := f.Signature.Params().At(0).Type().(*types.Pointer)
					if !ok {
						break
					}
					var rv Value = Ptr{C: m.newCell(t)}
					if _, isPtr := f.Signature.Recv().Type().(*types.Pointer); !isPtr {
						rv = m.load(m.newCell(t))
					}
					m.callFn(f, []Value{rv, Ptr{C: m.newCell(pt.Elem())}}, nil)
					n++
					break
				}
			}
			switch u := t.Underlying().(type) {
			case *types.Pointer:
				visit(u.Elem(), depth+1)
			case *types.Slice:
				visit(u.Elem(), depth+1)
			case *types.Array:
				visit(u.Elem(), depth+1)
			case *types.Map:
				visit(u.Key(), depth+1)
				visit(u.Elem(), depth+1)
			case *types.Struct:
				for i := 0; i < u.NumFields(); i++ {
					visit(u.Field(i).Type(), depth+1)
				}
			}
		}
		visit(iv.T, 0)
		return m.ctx.BV(uint64(n), 64)
	})
	reg("WatchGlobals", func(m *Machine, fn *ssa.Function, a []Value) Value {
		m.installWriteLog()
		m.watchGlobals = true
		seen := map[*Cell]bool{}
		for g, c := range m.globals {
			if g.Pkg == nil {
				continue
			}
			path := g.Pkg.Pkg.Path()
			if !m.P.InitPkgs[path] || len(path) >= len(m.P.ApiPath) && path[:len(m.P.ApiPath)] == m.P.ApiPath {
				continue
			}
			tag := c.Tag
			m.colourCell(c, "$global", seen)
			for cc := range seen {
				if cc.Tag == "" {
					cc.Tag = tag
				}
			}
		}
		return nil
	})
}

// safeEq compares two values of one static type, treating incomparable kinds by identity.
func (m *Machine) safeEq(a, b Value) (res *sym.Term) {
	defer func() {
		if r := recover(); r != nil {
			if _, ok := r.(string); ok {
				res = m.ctx.False
				return
			}
			panic(r)
		}
	}()
	switch x := a.(type) {
	case Slice:
		y, ok := b.(Slice)
		return m.ctx.Bool(ok && x.Arr == y.Arr && x.Off == y.Off && x.Len == y.Len && x.Cap == y.Cap)
	case Map:
		y, ok := b.(Map)
		return m.ctx.Bool(ok && x.M == y.M)
	case *Closure:
		y, ok := b.(*Closure)
		return m.ctx.Bool(ok && (x == y || (x != nil && y != nil && x.Fn == y.Fn)))
	}
	return m.valueEq(a, b)
}

// deepEq is reflect.DeepEqual for the value kinds the executor has: structs
// field by field, slices and arrays element by element (a nil slice differs
// from an empty one), maps key by key (concrete keys), pointers by pointee,
// functions equal only if both nil.
func (m *Machine) deepEq(a, b Value, depth int) *sym.Term {
	c := m.ctx
	if depth > 24 {
		m.notEnc("reflect.DeepEqual: nesting too deep")
	}
	switch x := a.(type) {
	case Iface:
		y, ok := b.(Iface)
		if !ok {
			return c.False
		}
		if x.T == nil || y.T == nil {
			return c.Bool(x.T == nil && y.T == nil)
		}
		if !types.Identical(x.T, y.T) {
			return c.False
		}
		return m.deepEq(x.V, y.V, depth+1)
	case *Struct:
		y := b.(*Struct)
		parts := make([]*sym.Term, 0, len(x.F))
		for i := range x.F {
			parts = append(parts, m.deepEq(x.F[i], y.F[i], depth+1))
		}
		return c.And(parts...)
	case *Array:
		y := b.(*Array)
		parts := make([]*sym.Term, 0, len(x.E))
		for i := range x.E {
			parts = append(parts, m.deepEq(x.E[i], y.E[i], depth+1))
		}
		return c.And(parts...)
	case Slice:
		y := b.(Slice)
		if (x.Arr == nil) != (y.Arr == nil) || x.Len != y.Len {
			return c.False
		}
		parts := make([]*sym.Term, 0, x.Len)
		for i := 0; i < x.Len; i++ {
			parts = append(parts, m.deepEq(m.load(m.kid(x.Arr, x.Off+i)), m.load(m.kid(y.Arr, y.Off+i)), depth+1))
		}
		return c.And(parts...)
	case Map:
		y := b.(Map)
		if (x.M == nil) != (y.M == nil) {
			return c.False
		}
		if x.M == nil {
			return c.True
		}
		xl, yl := x.M.live(), y.M.live()
		if len(xl) != len(yl) {
			return c.False
		}
		parts := make([]*sym.Term, 0, len(xl))
		for _, e := range xl {
			f := m.mapFind(y.M, e.K)
			if f == nil {
				return c.False
			}
			parts = append(parts, m.deepEq(m.load(e.V), m.load(f.V), depth+1))
		}
		return c.And(parts...)
	case Ptr:
		y, ok := b.(Ptr)
		if !ok {
			return c.False
		}
		if x.C == nil || y.C == nil {
			return c.Bool(x.C == nil && y.C == nil)
		}
		if x.C == y.C {
			return c.True
		}
		return m.deepEq(m.load(x.C), m.load(y.C), depth+1)
	case *Closure:
		y, _ := b.(*Closure)
		return c.Bool(x == nil && y == nil)
	}
	return m.valueEq(a, b)
}

func init() {
	reg("reflect.DeepEqual", func(m *Machine, fn *ssa.Function, a []Value) Value {
		return m.deepEq(a[0], a[1], 0)
	})
}
