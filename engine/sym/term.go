// Package sym implements hash-consed QF_BV terms with a constant-folding
// simplifier, an SMT-LIB2 printer and a concrete evaluator.
package sym

import (
	"fmt"
	"math/bits"
	"sort"
	"strconv"
	"strings"
)

type Op uint8

const (
	OpConst Op = iota // Val, Width (0 = Bool)
	OpVar             // Name, Width
	OpNot
	OpAnd
	OpOr
	OpEq
	OpIte
	OpUlt
	OpUle
	OpSlt
	OpSle
	OpAdd
	OpSub
	OpMul
	OpUDiv
	OpURem
	OpSDiv
	OpSRem
	OpBvAnd
	OpBvOr
	OpBvXor
	OpShl
	OpLshr
	OpAshr
	OpBvNot
	OpNeg
	OpExtract // Val = hi<<8|lo
	OpConcat
	OpZext // to Width
	OpSext // to Width
)

var opNames = map[Op]string{
	OpNot: "not", OpAnd: "and", OpOr: "or", OpEq: "=", OpIte: "ite",
	OpUlt: "bvult", OpUle: "bvule", OpSlt: "bvslt", OpSle: "bvsle",
	OpAdd: "bvadd", OpSub: "bvsub", OpMul: "bvmul", OpUDiv: "bvudiv", OpURem: "bvurem",
	OpSDiv: "bvsdiv", OpSRem: "bvsrem", OpBvAnd: "bvand", OpBvOr: "bvor", OpBvXor: "bvxor",
	OpShl: "bvshl", OpLshr: "bvlshr", OpAshr: "bvashr", OpBvNot: "bvnot", OpNeg: "bvneg",
	OpConcat: "concat",
}

// Term is an immutable hash-consed node. Width 0 means Bool.
type Term struct {
	ID    int
	Op    Op
	Width int
	Args  []*Term
	Val   uint64
	Name  string
}

func (t *Term) IsConst() bool { return t.Op == OpConst }
func (t *Term) IsBool() bool  { return t.Width == 0 }
func (t *Term) IsTrue() bool  { return t.Op == OpConst && t.Width == 0 && t.Val == 1 }
func (t *Term) IsFalse() bool { return t.Op == OpConst && t.Width == 0 && t.Val == 0 }

// Ctx owns a hash-consing table. Not safe for concurrent use.
type Ctx struct {
	tab    map[tkey]*Term
	nextID int
	True   *Term
	False  *Term
	Vars   map[string]*Term
}

func NewCtx() *Ctx {
	c := &Ctx{tab: map[tkey]*Term{}, Vars: map[string]*Term{}}
	c.True = c.mk(OpConst, 0, nil, 1, "")
	c.False = c.mk(OpConst, 0, nil, 0, "")
	return c
}

func (c *Ctx) NumTerms() int { return c.nextID }

type tkey struct {
	op         Op
	w          int
	val        uint64
	name       string
	n          int
	a0, a1, a2 int
	rest       string
}

func (c *Ctx) mk(op Op, w int, args []*Term, val uint64, name string) *Term {
	k := tkey{op: op, w: w, val: val, name: name, n: len(args), a0: -1, a1: -1, a2: -1}
	if len(args) > 0 {
		k.a0 = args[0].ID
	}
	if len(args) > 1 {
		k.a1 = args[1].ID
	}
	if len(args) > 2 {
		k.a2 = args[2].ID
	}
	if len(args) > 3 {
		b := make([]byte, 0, 8*len(args))
		for _, a := range args[3:] {
			b = strconv.AppendInt(b, int64(a.ID), 36)
			b = append(b, ',')
		}
		k.rest = string(b)
	}
	if t, ok := c.tab[k]; ok {
		return t
	}
	t := &Term{ID: c.nextID, Op: op, Width: w, Args: args, Val: val, Name: name}
	c.nextID++
	c.tab[k] = t
	return t
}

func mask(w int) uint64 {
	if w >= 64 {
		return ^uint64(0)
	}
	return (uint64(1) << uint(w)) - 1
}

func (c *Ctx) Bool(b bool) *Term {
	if b {
		return c.True
	}
	return c.False
}

func (c *Ctx) BV(v uint64, w int) *Term {
	if w <= 0 || w > 64 {
		panic(fmt.Sprintf("bad width %d", w))
	}
	return c.mk(OpConst, w, nil, v&mask(w), "")
}

func (c *Ctx) Var(name string, w int) *Term {
	t := c.mk(OpVar, w, nil, 0, name)
	c.Vars[name] = t
	return t
}

func signed(v uint64, w int) int64 {
	if w >= 64 {
		return int64(v)
	}
	if v&(1<<uint(w-1)) != 0 {
		return int64(v | ^mask(w))
	}
	return int64(v)
}

// SignedVal returns the constant interpreted as signed.
func (t *Term) SignedVal() int64 { return signed(t.Val, t.Width) }

func (c *Ctx) Not(a *Term) *Term {
	if a.IsConst() {
		return c.Bool(a.Val == 0)
	}
	if a.Op == OpNot {
		return a.Args[0]
	}
	return c.mk(OpNot, 0, []*Term{a}, 0, "")
}

func (c *Ctx) And(xs ...*Term) *Term {
	var out []*Term
	seen := map[int]bool{}
	for _, x := range xs {
		if x.IsFalse() {
			return c.False
		}
		if x.IsTrue() {
			continue
		}
		if x.Op == OpAnd {
			for _, y := range x.Args {
				if !seen[y.ID] {
					seen[y.ID] = true
					out = append(out, y)
				}
			}
			continue
		}
		if !seen[x.ID] {
			seen[x.ID] = true
			out = append(out, x)
		}
	}
	for _, x := range out {
		if x.Op == OpNot && seen[x.Args[0].ID] {
			return c.False
		}
	}
	switch len(out) {
	case 0:
		return c.True
	case 1:
		return out[0]
	}
	return c.mk(OpAnd, 0, out, 0, "")
}

func (c *Ctx) Or(xs ...*Term) *Term {
	var out []*Term
	seen := map[int]bool{}
	for _, x := range xs {
		if x.IsTrue() {
			return c.True
		}
		if x.IsFalse() {
			continue
		}
		if x.Op == OpOr {
			for _, y := range x.Args {
				if !seen[y.ID] {
					seen[y.ID] = true
					out = append(out, y)
				}
			}
			continue
		}
		if !seen[x.ID] {
			seen[x.ID] = true
			out = append(out, x)
		}
	}
	for _, x := range out {
		if x.Op == OpNot && seen[x.Args[0].ID] {
			return c.True
		}
	}
	switch len(out) {
	case 0:
		return c.False
	case 1:
		return out[0]
	}
	return c.mk(OpOr, 0, out, 0, "")
}

func (c *Ctx) Implies(a, b *Term) *Term { return c.Or(c.Not(a), b) }

// zextInfo: if t is zext/concat-with-zero of a narrower term, return it.
func zextInner(t *Term) *Term {
	if t.Op == OpZext {
		return t.Args[0]
	}
	return nil
}

func (c *Ctx) Eq(a, b *Term) *Term {
	if a == b {
		return c.True
	}
	if a.Width != b.Width {
		panic(fmt.Sprintf("Eq width mismatch %d vs %d", a.Width, b.Width))
	}
	if a.IsConst() && b.IsConst() {
		return c.Bool(a.Val == b.Val)
	}
	if a.IsConst() {
		a, b = b, a
	}
	if a.Width == 0 {
		if b.IsTrue() {
			return a
		}
		if b.IsFalse() {
			return c.Not(a)
		}
	}
	if b.IsConst() {
		if a.Op == OpAdd && a.Args[1].IsConst() {
			// x + c1 == c2  <=>  x == c2 - c1
			return c.Eq(a.Args[0], c.BV(b.Val-a.Args[1].Val, a.Width))
		}
		if a.Op == OpIte && iteConstTree(a, 0) {
			return c.eqIteConst(a, b)
		}
		if in := zextInner(a); in != nil {
			if b.Val > mask(in.Width) {
				return c.False
			}
			return c.Eq(in, c.BV(b.Val, in.Width))
		}
		if a.Op == OpIte && a.Args[1].IsConst() && a.Args[2].IsConst() {
			// ite(c,k1,k2) == k
			t1 := a.Args[1].Val == b.Val
			t2 := a.Args[2].Val == b.Val
			switch {
			case t1 && t2:
				return c.True
			case t1:
				return a.Args[0]
			case t2:
				return c.Not(a.Args[0])
			default:
				return c.False
			}
		}
	}
	if ia, ib := zextInner(a), zextInner(b); ia != nil && ib != nil && ia.Width == ib.Width {
		return c.Eq(ia, ib)
	}
	if a.ID > b.ID {
		a, b = b, a
	}
	return c.mk(OpEq, 0, []*Term{a, b}, 0, "")
}

// iteConstTree: t is a constant or an ite whose branches are such trees.
func iteConstTree(t *Term, depth int) bool {
	if t.Op == OpConst {
		return true
	}
	if t.Op != OpIte || depth > 40 {
		return false
	}
	return iteConstTree(t.Args[1], depth+1) && iteConstTree(t.Args[2], depth+1)
}

func (c *Ctx) eqIteConst(t, k *Term) *Term {
	if t.Op == OpConst {
		return c.Bool(t.Val == k.Val)
	}
	return c.Ite(t.Args[0], c.eqIteConst(t.Args[1], k), c.eqIteConst(t.Args[2], k))
}

func (c *Ctx) Ite(cond, a, b *Term) *Term {
	if cond.IsTrue() {
		return a
	}
	if cond.IsFalse() {
		return b
	}
	if a == b {
		return a
	}
	if a.Width != b.Width {
		panic("Ite width mismatch")
	}
	if a.Width == 0 {
		if a.IsTrue() && b.IsFalse() {
			return cond
		}
		if a.IsFalse() && b.IsTrue() {
			return c.Not(cond)
		}
		if a.IsTrue() {
			return c.Or(cond, b)
		}
		if a.IsFalse() {
			return c.And(c.Not(cond), b)
		}
		if b.IsTrue() {
			return c.Or(c.Not(cond), a)
		}
		if b.IsFalse() {
			return c.And(cond, a)
		}
	}
	if cond.Op == OpNot {
		return c.Ite(cond.Args[0], b, a)
	}
	return c.mk(OpIte, a.Width, []*Term{cond, a, b}, 0, "")
}

// ubound returns a cheap upper bound of the unsigned value of t.
func ubound(t *Term, depth int) uint64 {
	if t.Op == OpConst {
		return t.Val
	}
	m := mask(t.Width)
	if depth > 6 {
		return m
	}
	switch t.Op {
	case OpBvAnd:
		a, b := ubound(t.Args[0], depth+1), ubound(t.Args[1], depth+1)
		if a < b {
			return a
		}
		return b
	case OpLshr:
		if t.Args[1].IsConst() {
			if t.Args[1].Val >= uint64(t.Width) {
				return 0
			}
			return ubound(t.Args[0], depth+1) >> t.Args[1].Val
		}
		return ubound(t.Args[0], depth+1)
	case OpZext:
		return ubound(t.Args[0], depth+1)
	case OpExtract:
		lo := t.Val & 0xff
		if lo == 0 {
			u := ubound(t.Args[0], depth+1)
			if u < m {
				return u
			}
		}
		return m
	case OpURem:
		if t.Args[1].IsConst() && t.Args[1].Val > 0 {
			return t.Args[1].Val - 1
		}
	case OpIte:
		a, b := ubound(t.Args[1], depth+1), ubound(t.Args[2], depth+1)
		if a > b {
			return a
		}
		return b
	}
	return m
}

func (c *Ctx) cmp(op Op, a, b *Term) *Term {
	if a.Width != b.Width {
		panic(fmt.Sprintf("cmp width mismatch %d %d", a.Width, b.Width))
	}
	if b.IsConst() && !a.IsConst() {
		u := ubound(a, 0)
		if op == OpUlt && u < b.Val {
			return c.True
		}
		if op == OpUle && u <= b.Val {
			return c.True
		}
	}
	if a.IsConst() && b.IsConst() {
		switch op {
		case OpUlt:
			return c.Bool(a.Val < b.Val)
		case OpUle:
			return c.Bool(a.Val <= b.Val)
		case OpSlt:
			return c.Bool(signed(a.Val, a.Width) < signed(b.Val, b.Width))
		case OpSle:
			return c.Bool(signed(a.Val, a.Width) <= signed(b.Val, b.Width))
		}
	}
	if a == b {
		return c.Bool(op == OpUle || op == OpSle)
	}
	// comparisons of zero-extended values against constants / each other
	ia, ib := zextInner(a), zextInner(b)
	nonneg := func(t *Term, in *Term) bool { return in != nil && in.Width < t.Width }
	if nonneg(a, ia) && b.IsConst() {
		bv := b.Val
		sb := signed(b.Val, b.Width)
		if (op == OpSlt || op == OpSle) && sb < 0 {
			return c.False
		}
		if bv > mask(ia.Width) {
			return c.True // a <= max(inner) < b
		}
		nb := c.BV(bv, ia.Width)
		if op == OpUlt || op == OpSlt {
			return c.cmp(OpUlt, ia, nb)
		}
		return c.cmp(OpUle, ia, nb)
	}
	if a.IsConst() && nonneg(b, ib) {
		av := a.Val
		sa := signed(a.Val, a.Width)
		if (op == OpSlt || op == OpSle) && sa < 0 {
			return c.True
		}
		if av > mask(ib.Width) {
			return c.False
		}
		na := c.BV(av, ib.Width)
		if op == OpUlt || op == OpSlt {
			return c.cmp(OpUlt, na, ib)
		}
		return c.cmp(OpUle, na, ib)
	}
	if nonneg(a, ia) && nonneg(b, ib) && ia.Width == ib.Width {
		if op == OpUlt || op == OpSlt {
			return c.cmp(OpUlt, ia, ib)
		}
		return c.cmp(OpUle, ia, ib)
	}
	if op == OpUlt && b.IsConst() && b.Val == 0 {
		return c.False
	}
	if op == OpUle && a.IsConst() && a.Val == 0 {
		return c.True
	}
	return c.mk(op, 0, []*Term{a, b}, 0, "")
}

func (c *Ctx) Ult(a, b *Term) *Term { return c.cmp(OpUlt, a, b) }
func (c *Ctx) Ule(a, b *Term) *Term { return c.cmp(OpUle, a, b) }
func (c *Ctx) Slt(a, b *Term) *Term { return c.cmp(OpSlt, a, b) }
func (c *Ctx) Sle(a, b *Term) *Term { return c.cmp(OpSle, a, b) }

func foldBin(op Op, a, b uint64, w int) (uint64, bool) {
	m := mask(w)
	switch op {
	case OpAdd:
		return (a + b) & m, true
	case OpSub:
		return (a - b) & m, true
	case OpMul:
		return (a * b) & m, true
	case OpUDiv:
		if b == 0 {
			return m, true
		}
		return a / b, true
	case OpURem:
		if b == 0 {
			return a, true
		}
		return a % b, true
	case OpSDiv:
		sa, sb := signed(a, w), signed(b, w)
		if sb == 0 {
			if sa < 0 {
				return 1, true
			}
			return m, true
		}
		if sb == -1 {
			return uint64(-sa) & m, true
		}
		return uint64(sa/sb) & m, true
	case OpSRem:
		sa, sb := signed(a, w), signed(b, w)
		if sb == 0 {
			return a, true
		}
		if sb == -1 {
			return 0, true
		}
		return uint64(sa%sb) & m, true
	case OpBvAnd:
		return a & b, true
	case OpBvOr:
		return a | b, true
	case OpBvXor:
		return a ^ b, true
	case OpShl:
		if b >= uint64(w) {
			return 0, true
		}
		return (a << b) & m, true
	case OpLshr:
		if b >= uint64(w) {
			return 0, true
		}
		return a >> b, true
	case OpAshr:
		sa := signed(a, w)
		if b >= uint64(w) {
			if sa < 0 {
				return m, true
			}
			return 0, true
		}
		return uint64(sa>>b) & m, true
	}
	return 0, false
}

func (c *Ctx) Bin(op Op, a, b *Term) *Term {
	if a.Width != b.Width {
		panic(fmt.Sprintf("Bin %s width mismatch %d vs %d", opNames[op], a.Width, b.Width))
	}
	w := a.Width
	if a.IsConst() && b.IsConst() {
		if v, ok := foldBin(op, a.Val, b.Val, w); ok {
			return c.BV(v, w)
		}
	}
	isZero := func(t *Term) bool { return t.IsConst() && t.Val == 0 }
	isOnes := func(t *Term) bool { return t.IsConst() && t.Val == mask(w) }
	switch op {
	case OpAdd:
		if isZero(a) {
			return b
		}
		if isZero(b) {
			return a
		}
		if a.IsConst() { // canonical: const on the right
			a, b = b, a
		}
		if b.IsConst() && a.Op == OpAdd && a.Args[1].IsConst() {
			return c.Bin(OpAdd, a.Args[0], c.BV(a.Args[1].Val+b.Val, w))
		}
	case OpSub:
		if isZero(b) {
			return a
		}
		if a == b {
			return c.BV(0, w)
		}
		if b.IsConst() {
			return c.Bin(OpAdd, a, c.BV(-b.Val, w))
		}
	case OpMul:
		if isZero(a) || isZero(b) {
			return c.BV(0, w)
		}
		if a.IsConst() && a.Val == 1 {
			return b
		}
		if b.IsConst() && b.Val == 1 {
			return a
		}
	case OpBvAnd:
		if isZero(a) || isZero(b) {
			return c.BV(0, w)
		}
		if isOnes(a) {
			return b
		}
		if isOnes(b) {
			return a
		}
		if a == b {
			return a
		}
		// and(zext(x), const) with const covering the inner width
		if in := zextInner(a); in != nil && b.IsConst() && b.Val&mask(in.Width) == mask(in.Width) {
			return a
		}
	case OpBvOr:
		if isZero(a) {
			return b
		}
		if isZero(b) {
			return a
		}
		if a == b {
			return a
		}
		if isOnes(a) || isOnes(b) {
			return c.BV(mask(w), w)
		}
	case OpBvXor:
		if isZero(a) {
			return b
		}
		if isZero(b) {
			return a
		}
		if a == b {
			return c.BV(0, w)
		}
	case OpShl, OpLshr, OpAshr:
		if isZero(b) {
			return a
		}
		if isZero(a) {
			return a
		}
		if b.IsConst() && b.Val >= uint64(w) && op != OpAshr {
			return c.BV(0, w)
		}
		if op == OpLshr && b.IsConst() {
			if in := zextInner(a); in != nil && b.Val >= uint64(in.Width) {
				return c.BV(0, w)
			}
		}
	case OpUDiv, OpSDiv:
		if b.IsConst() && b.Val == 1 {
			return a
		}
	case OpURem, OpSRem:
		if b.IsConst() && b.Val == 1 {
			return c.BV(0, w)
		}
	}
	return c.mk(op, w, []*Term{a, b}, 0, "")
}

func (c *Ctx) BvNot(a *Term) *Term {
	if a.IsConst() {
		return c.BV(^a.Val, a.Width)
	}
	if a.Op == OpBvNot {
		return a.Args[0]
	}
	return c.mk(OpBvNot, a.Width, []*Term{a}, 0, "")
}

func (c *Ctx) Neg(a *Term) *Term {
	if a.IsConst() {
		return c.BV(-a.Val, a.Width)
	}
	return c.mk(OpNeg, a.Width, []*Term{a}, 0, "")
}

func (c *Ctx) Extract(a *Term, hi, lo int) *Term {
	if lo == 0 && hi == a.Width-1 {
		return a
	}
	w := hi - lo + 1
	if a.IsConst() {
		return c.BV(a.Val>>uint(lo), w)
	}
	switch a.Op {
	case OpZext:
		in := a.Args[0]
		if hi < in.Width {
			return c.Extract(in, hi, lo)
		}
		if lo >= in.Width {
			return c.BV(0, w)
		}
		if lo == 0 {
			return c.Zext(in, w)
		}
	case OpSext:
		in := a.Args[0]
		if hi < in.Width {
			return c.Extract(in, hi, lo)
		}
		if lo == 0 {
			return c.Sext(in, w)
		}
	case OpConcat:
		h, l := a.Args[0], a.Args[1]
		if hi < l.Width {
			return c.Extract(l, hi, lo)
		}
		if lo >= l.Width {
			return c.Extract(h, hi-l.Width, lo-l.Width)
		}
	case OpExtract:
		ilo := int(a.Val & 0xff)
		return c.Extract(a.Args[0], hi+ilo, lo+ilo)
	case OpIte:
		if a.Args[1].IsConst() && a.Args[2].IsConst() {
			return c.Ite(a.Args[0], c.Extract(a.Args[1], hi, lo), c.Extract(a.Args[2], hi, lo))
		}
	case OpBvAnd, OpBvOr, OpBvXor:
		if lo == 0 && (a.Args[0].IsConst() || a.Args[1].IsConst()) {
			return c.Bin(a.Op, c.Extract(a.Args[0], hi, lo), c.Extract(a.Args[1], hi, lo))
		}
	}
	return c.mk(OpExtract, w, []*Term{a}, uint64(hi)<<8|uint64(lo), "")
}

func (c *Ctx) Concat(h, l *Term) *Term {
	if h.IsConst() && l.IsConst() {
		return c.BV(h.Val<<uint(l.Width)|l.Val, h.Width+l.Width)
	}
	if h.IsConst() && h.Val == 0 {
		return c.Zext(l, h.Width+l.Width)
	}
	if h.Op == OpExtract && l.Op == OpExtract && h.Args[0] == l.Args[0] {
		hlo := int(h.Val & 0xff)
		lhi := int(l.Val >> 8)
		if hlo == lhi+1 {
			return c.Extract(h.Args[0], int(h.Val>>8), int(l.Val&0xff))
		}
	}
	return c.mk(OpConcat, h.Width+l.Width, []*Term{h, l}, 0, "")
}

func (c *Ctx) Zext(a *Term, w int) *Term {
	if w == a.Width {
		return a
	}
	if w < a.Width {
		return c.Extract(a, w-1, 0)
	}
	if a.IsConst() {
		return c.BV(a.Val, w)
	}
	if a.Op == OpZext {
		return c.Zext(a.Args[0], w)
	}
	if a.Op == OpIte && a.Args[1].IsConst() && a.Args[2].IsConst() {
		return c.Ite(a.Args[0], c.Zext(a.Args[1], w), c.Zext(a.Args[2], w))
	}
	return c.mk(OpZext, w, []*Term{a}, 0, "")
}

func (c *Ctx) Sext(a *Term, w int) *Term {
	if w == a.Width {
		return a
	}
	if w < a.Width {
		return c.Extract(a, w-1, 0)
	}
	if a.IsConst() {
		return c.BV(uint64(signed(a.Val, a.Width)), w)
	}
	if a.Op == OpZext && a.Args[0].Width < a.Width {
		return c.Zext(a.Args[0], w)
	}
	return c.mk(OpSext, w, []*Term{a}, 0, "")
}

// ---------------------------------------------------------------- printing

func sortStr(w int) string {
	if w == 0 {
		return "Bool"
	}
	return fmt.Sprintf("(_ BitVec %d)", w)
}

func constStr(t *Term) string {
	if t.Width == 0 {
		if t.Val == 1 {
			return "true"
		}
		return "false"
	}
	if t.Width%4 == 0 {
		return fmt.Sprintf("#x%0*x", t.Width/4, t.Val)
	}
	return fmt.Sprintf("#b%0*b", t.Width, t.Val)
}

// SMT renders t as an SMT-LIB2 expression, using let-bindings for shared
// sub-terms. vars collects the free variables encountered.
func SMT(t *Term, vars map[string]*Term) string {
	// count references
	refs := map[int]int{}
	var order []*Term
	var walk func(x *Term)
	walk = func(x *Term) {
		refs[x.ID]++
		if refs[x.ID] > 1 {
			return
		}
		for _, a := range x.Args {
			walk(a)
		}
		order = append(order, x) // post-order
	}
	walk(t)
	names := map[int]string{}
	var sb strings.Builder
	var expr func(x *Term, top bool) string
	expr = func(x *Term, top bool) string {
		if !top {
			if n, ok := names[x.ID]; ok {
				return n
			}
		}
		switch x.Op {
		case OpConst:
			return constStr(x)
		case OpVar:
			if vars != nil {
				vars[x.Name] = x
			}
			return "|" + x.Name + "|"
		case OpExtract:
			return fmt.Sprintf("((_ extract %d %d) %s)", x.Val>>8, x.Val&0xff, expr(x.Args[0], false))
		case OpZext:
			return fmt.Sprintf("((_ zero_extend %d) %s)", x.Width-x.Args[0].Width, expr(x.Args[0], false))
		case OpSext:
			return fmt.Sprintf("((_ sign_extend %d) %s)", x.Width-x.Args[0].Width, expr(x.Args[0], false))
		}
		var b strings.Builder
		b.WriteByte('(')
		b.WriteString(opNames[x.Op])
		for _, a := range x.Args {
			b.WriteByte(' ')
			b.WriteString(expr(a, false))
		}
		b.WriteByte(')')
		return b.String()
	}
	nlets := 0
	for _, x := range order {
		if x == t {
			continue
		}
		if refs[x.ID] > 1 && len(x.Args) > 0 {
			e := expr(x, true)
			n := fmt.Sprintf("?t%d", x.ID)
			fmt.Fprintf(&sb, "(let ((%s %s)) ", n, e)
			names[x.ID] = n
			nlets++
		}
	}
	sb.WriteString(expr(t, true))
	for i := 0; i < nlets; i++ {
		sb.WriteByte(')')
	}
	return sb.String()
}

func DeclStr(v *Term) string {
	return fmt.Sprintf("(declare-const |%s| %s)", v.Name, sortStr(v.Width))
}

// ---------------------------------------------------------------- evaluation

// Eval computes t under the assignment (missing variables are 0).
func Eval(t *Term, model map[string]uint64) uint64 {
	memo := map[int]uint64{}
	var ev func(x *Term) uint64
	ev = func(x *Term) uint64 {
		if v, ok := memo[x.ID]; ok {
			return v
		}
		var r uint64
		b2u := func(b bool) uint64 {
			if b {
				return 1
			}
			return 0
		}
		switch x.Op {
		case OpConst:
			r = x.Val
		case OpVar:
			r = model[x.Name] & mask1(x.Width)
		case OpNot:
			r = 1 - ev(x.Args[0])
		case OpAnd:
			r = 1
			for _, a := range x.Args {
				if ev(a) == 0 {
					r = 0
					break
				}
			}
		case OpOr:
			r = 0
			for _, a := range x.Args {
				if ev(a) == 1 {
					r = 1
					break
				}
			}
		case OpEq:
			r = b2u(ev(x.Args[0]) == ev(x.Args[1]))
		case OpIte:
			if ev(x.Args[0]) == 1 {
				r = ev(x.Args[1])
			} else {
				r = ev(x.Args[2])
			}
		case OpUlt:
			r = b2u(ev(x.Args[0]) < ev(x.Args[1]))
		case OpUle:
			r = b2u(ev(x.Args[0]) <= ev(x.Args[1]))
		case OpSlt:
			w := x.Args[0].Width
			r = b2u(signed(ev(x.Args[0]), w) < signed(ev(x.Args[1]), w))
		case OpSle:
			w := x.Args[0].Width
			r = b2u(signed(ev(x.Args[0]), w) <= signed(ev(x.Args[1]), w))
		case OpBvNot:
			r = ^ev(x.Args[0]) & mask(x.Width)
		case OpNeg:
			r = -ev(x.Args[0]) & mask(x.Width)
		case OpExtract:
			lo := x.Val & 0xff
			r = (ev(x.Args[0]) >> lo) & mask(x.Width)
		case OpConcat:
			r = ev(x.Args[0])<<uint(x.Args[1].Width) | ev(x.Args[1])
		case OpZext:
			r = ev(x.Args[0])
		case OpSext:
			r = uint64(signed(ev(x.Args[0]), x.Args[0].Width)) & mask(x.Width)
		default:
			v, ok := foldBin(x.Op, ev(x.Args[0]), ev(x.Args[1]), x.Width)
			if !ok {
				panic(fmt.Sprintf("eval: op %d", x.Op))
			}
			r = v
		}
		memo[x.ID] = r
		return r
	}
	return ev(t)
}

func mask1(w int) uint64 {
	if w == 0 {
		return 1
	}
	return mask(w)
}

// FreeVars returns the sorted names of variables in t.
func FreeVars(ts ...*Term) []string {
	seen := map[int]bool{}
	names := map[string]bool{}
	var walk func(x *Term)
	walk = func(x *Term) {
		if seen[x.ID] {
			return
		}
		seen[x.ID] = true
		if x.Op == OpVar {
			names[x.Name] = true
		}
		for _, a := range x.Args {
			walk(a)
		}
	}
	for _, t := range ts {
		walk(t)
	}
	out := make([]string, 0, len(names))
	for n := range names {
		out = append(out, n)
	}
	sort.Strings(out)
	return out
}

// Size returns the number of distinct nodes in t.
func Size(t *Term) int {
	seen := map[int]bool{}
	var walk func(x *Term)
	walk = func(x *Term) {
		if seen[x.ID] {
			return
		}
		seen[x.ID] = true
		for _, a := range x.Args {
			walk(a)
		}
	}
	walk(t)
	return len(seen)
}

var _ = bits.Len
