//go:build verif

package nfpm

import (
	"strings"

	"github.com/Masterminds/semver/v3"
	v "github.com/goreleaser/nfpm/v2/internal/zzverif"
)

func verifDigits(name string, max int) (string, uint64) {
	s := v.NondetStringRange(name, 1, max)
	v.Assume(v.AllIn(s, "0-9"))
	if len(s) > 1 {
		v.Assume(s[0] != '0')
	}
	var n uint64
	for i := 0; i < len(s); i++ {
		n = n*10 + uint64(s[i]-'0')
	}
	return s, n
}

// Verif_C14_SemverSplit: a version that parses as a semantic version is kept as
// major.minor.patch with prerelease and metadata as separate components
// (explicitly configured ones win, nothing lost, nothing duplicated); with
// schema "none", or when it does not parse, the string is used verbatim.
// (semver.NewVersion itself is a contract stub: it yields the components the
// harness chose; natively the real parser sees the string built from them.)
func Verif_C14_SemverSplit() {
	maj, majN := verifDigits("maj", 2)
	switch v.NondetChoice("maj.huge", 3) { // components are 64-bit unsigned numbers
	case 1:
		maj, majN = "9223372036854775808", 9223372036854775808
	case 2:
		maj, majN = "18446744073709551615", 18446744073709551615
	}
	min, minN := verifDigits("min", 2)
	pat, patN := verifDigits("pat", 1)
	pre := v.NondetStringRange("pre", 0, 3)
	if pre != "" {
		v.Assume(v.SemverIdent(pre))
		v.Assume(!v.AllIn(pre[:1], "0")) // no numeric identifier with a leading zero
	}
	meta := v.NondetStringRange("meta", 0, 2)
	v.Assume(v.AllIn(meta, "0-9a-zA-Z"))
	numeric := maj + "." + min + "." + pat
	vstr := numeric
	if pre != "" {
		vstr += "-" + pre
	}
	if meta != "" {
		vstr += "+" + meta
	}
	if v.NondetBool("v-prefix") {
		vstr = "v" + vstr
	}
	parses := v.NondetBool("parses")
	if !parses {
		vstr = "not.a.version." + maj
	}
	if v.Symbolic() {
		if parses {
			v.Store("semver.next", semver.New(majN, minN, patN, pre, meta))
		} else {
			v.Store("semver.next", errNotSemver)
		}
	}
	// explicit components are the user's words: they need not be valid semver
	// identifiers (underscore, '~', a numeric identifier with a leading zero)
	explicitPre := v.NondetStringRange("explicit.pre", 0, 2)
	v.Assume(v.AllIn(explicitPre, "a-z0-9_~"))
	explicitMeta := v.NondetStringRange("explicit.meta", 0, 1)
	v.Assume(v.AllIn(explicitMeta, "a-z_"))
	schema := []string{"", "semver", "none"}[v.NondetChoice("schema", 3)]
	info := &Info{Name: "n", Arch: "amd64", Version: vstr, Prerelease: explicitPre, VersionMetadata: explicitMeta, VersionSchema: schema}
	WithDefaults(info)
	v.Reach("C14.split.ran")
	v.Observe("version", info.Version)
	if schema == "none" || !parses {
		v.Assert(info.Version == vstr, "version-verbatim-without-semver")
		v.Assert(info.Prerelease == explicitPre && info.VersionMetadata == explicitMeta, "components-untouched-without-semver")
		return
	}
	v.Assert(info.Version == numeric, "version-is-major-minor-patch")
	if explicitPre != "" {
		v.Assert(info.Prerelease == explicitPre, "explicit-prerelease-wins")
	} else {
		v.Assert(info.Prerelease == pre, "parsed-prerelease-kept")
	}
	if explicitMeta != "" {
		v.Assert(info.VersionMetadata == explicitMeta, "explicit-metadata-wins")
	} else {
		v.Assert(info.VersionMetadata == meta, "parsed-metadata-kept")
	}
}

// Verif_C14_VersionFromEnvironment: a version that reaches the configuration
// through an environment reference is split like one written out (the split
// sees the expanded value), and an explicit prerelease that expands to nothing
// does not shadow the version's own.
func Verif_C14_VersionFromEnvironment() {
	mapping := func(name string) string {
		if name == "VER" {
			return "v1.4.0-rc2"
		}
		return ""
	}
	doc := "name: n\narch: amd64\nversion: ${VER}\nprerelease: ${PRE}\n"
	if v.Symbolic() {
		v.Store("yaml.fill", func(t any) error {
			c := t.(*Config)
			c.Name, c.Arch, c.Version, c.Prerelease = "n", "amd64", "${VER}", "${PRE}"
			return nil
		})
		v.Store("semver.expect", "v1.4.0-rc2")
		v.Store("semver.next", semver.New(1, 4, 0, "rc2", ""))
	}
	cfg, err := ParseWithEnvMapping(strings.NewReader(doc), mapping)
	v.Reach("C14.env.ran")
	v.Assert(err == nil, "parse-succeeds-on-a-decodable-document")
	if err != nil {
		return
	}
	v.Assert(cfg.Version == "1.4.0" && cfg.Prerelease == "rc2", "version-from-the-environment-is-split")
}
