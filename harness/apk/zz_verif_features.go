//go:build verif

package apk

import (
	"bytes"
	"crypto/sha1"
	"crypto/sha256"
	"strconv"
	"time"

	"github.com/goreleaser/nfpm/v2/files"
	v "github.com/goreleaser/nfpm/v2/internal/zzverif"
	"github.com/goreleaser/nfpm/v2/internal/zzverif/models"
	"github.com/goreleaser/nfpm/v2/internal/zzverif/scen"
)

func verifBuild(sc *scen.Scenario, nsegs int) ([]apkSegment, bool) {
	var buf bytes.Buffer
	err := Default.Package(sc.Info, &buf)
	v.Assert(err == nil, "apk-packages")
	if err != nil {
		return nil, false
	}
	segs, ok := verifDecodeApk(buf.Bytes())
	v.Assert(ok && len(segs) == nsegs, "apk-decodes")
	return segs, ok && len(segs) == nsegs
}

// Verif_C03_ApkDigests: datahash is the SHA-256 of the data segment as shipped,
// every file carries the SHA-1 of its bytes, size is the sum of the file sizes.
func Verif_C03_ApkDigests() {
	sc := scen.Payload(scen.Options{SymContent: true, Second: -1})
	if v.NondetBool("symlink.to.a.path.that.exists.on.the.build.host") {
		// its size (of the TARGET file) must not count: only regular files are shipped bytes
		big := models.AddFile("/src/target", bytes.Repeat([]byte("t"), 3000), 0o644, sc.MTime)
		sc.Info.Contents = append(sc.Info.Contents, &files.Content{Source: big, Destination: "/zz/abs", Type: files.TypeSymlink})
	}
	segs, ok := verifBuild(sc, 2)
	v.Reach("C03.apk.ran")
	if !ok {
		return
	}
	info := models.Find(segs[0].entries, ".PKGINFO")
	v.Assert(info != nil, "apk-pkginfo-present")
	if info == nil {
		return
	}
	text := string(info.Data)
	sum := sha256.Sum256(segs[1].raw)
	dh := v.KV(text, "datahash")
	v.Assert(len(dh) == 1 && dh[0] == v.Hex(sum[:]), "apk-datahash-is-sha256-of-data-segment-as-shipped")
	total := 0
	okSums := true
	for _, e := range segs[1].entries {
		if e.Type == '0' {
			total += len(e.Data)
			s1 := sha1.Sum(e.Data)
			if e.Pax["APK-TOOLS.checksum.SHA1"] != v.Hex(s1[:]) {
				okSums = false
			}
		}
	}
	v.Assert(okSums, "apk-per-file-sha1-checksum-matches-bytes")
	sz := v.KV(text, "size")
	v.Assert(len(sz) == 1 && sz[0] == strconv.Itoa(total), "apk-size-is-sum-of-file-sizes")
}

// Verif_C04_ApkStructure: control segment first (.PKGINFO first, cut tar), then a complete data tar; safe names.
func Verif_C04_ApkStructure() {
	sc := scen.Payload(scen.Options{SymDst: true, Second: -1})
	// the last member of the cut control segment ends on / off a block boundary
	switch v.NondetChoice("control.last.member", 4) {
	case 1:
		sc.Info.Scripts.PostInstall = models.AddFile("/scripts/post", bytes.Repeat([]byte("x"), 3), 0o600, sc.MTime)
	case 2:
		sc.Info.Scripts.PostInstall = models.AddFile("/scripts/post", bytes.Repeat([]byte("x"), 512), 0o600, sc.MTime)
	case 3:
		sc.Info.Scripts.PostInstall = models.AddFile("/scripts/post", nil, 0o600, sc.MTime)
	}
	segs, ok := verifBuild(sc, 2)
	v.Reach("C04.apk.ran")
	if !ok {
		return
	}
	v.Assert(len(segs[0].entries) >= 1 && segs[0].entries[0].Name == ".PKGINFO", "apk-pkginfo-first-in-control")
	v.Assert(!segs[0].complete, "apk-control-segment-has-no-end-of-archive-marker")
	v.Assert(segs[1].complete, "apk-data-segment-is-a-complete-tar")
	v.Assert(segs[0].tarLen%512 == 0 && segs[1].tarLen%512 == 0, "apk-segments-512-aligned")
	seen := map[string]bool{}
	okNames := true
	for _, e := range segs[1].entries {
		if seen[e.Name] || len(e.Name) == 0 || e.Name[0] == '/' {
			okNames = false
		}
		seen[e.Name] = true
		if e.Type == '5' && e.Name[len(e.Name)-1] != '/' {
			okNames = false
		}
	}
	v.Assert(okNames, "apk-member-names-unique-relative-dirs-end-in-slash")
}

var verifApkSlots = []string{".pre-install", ".post-install", ".pre-deinstall", ".post-deinstall", ".pre-upgrade", ".post-upgrade"}

// Verif_C09_ApkScripts: configured scripts are control members under apk's names, verbatim, mode 0755.
func Verif_C09_ApkScripts() {
	sc := scen.Payload(scen.Options{UmaskChoice: true})
	mt := time.Unix(1500000000, 0).UTC()
	var body [6][]byte
	var set [6]bool
	nlen := v.Bound("C09.len", 2, 6) + 1
	base := v.NondetChoice("script.len", nlen)
	for i, slot := range verifApkSlots {
		set[i] = v.NondetBool("has" + slot)
		if set[i] {
			body[i] = []byte(v.NondetStringN("script"+slot, (base+i)%nlen))
			p := models.AddFile("/scripts/"+slot[1:], body[i], 0o600, mt)
			switch i {
			case 0:
				sc.Info.Scripts.PreInstall = p
			case 1:
				sc.Info.Scripts.PostInstall = p
			case 2:
				sc.Info.Scripts.PreRemove = p
			case 3:
				sc.Info.Scripts.PostRemove = p
			case 4:
				sc.Info.APK.Scripts.PreUpgrade = p
			case 5:
				sc.Info.APK.Scripts.PostUpgrade = p
			}
		}
	}
	// two events may be served by one script file: both slots must then carry it
	if set[0] && set[1] && v.NondetBool("share.one.file") {
		sc.Info.Scripts.PostInstall = sc.Info.Scripts.PreInstall
		body[1] = body[0]
	}
	segs, ok := verifBuild(sc, 2)
	v.Reach("C09.apk.ran")
	if !ok {
		return
	}
	for i, slot := range verifApkSlots {
		m := models.Find(segs[0].entries, slot)
		if !set[i] {
			v.Assert(m == nil, "apk-unconfigured-slot-absent")
			continue
		}
		v.Assert(m != nil, "apk-configured-slot-present")
		if m != nil {
			v.Assert(bytes.Equal(m.Data, body[i]), "apk-script-bytes-verbatim-in-its-slot")
			v.Assert(m.Mode == 0o755, "apk-script-mode")
		}
	}
}
