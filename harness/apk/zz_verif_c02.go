//go:build verif

package apk

import (
	"github.com/goreleaser/nfpm/v2"
	v "github.com/goreleaser/nfpm/v2/internal/zzverif"
)

// Verif_C02_A_Arch_Apk: the architecture is the format-specific override verbatim,
// else the documented translation of the GOARCH value (www/docs/goarch-to-pkg.md,
// read from the tree on every run), and translating twice changes nothing.
func Verif_C02_A_Arch_Apk() {
	arch := v.NondetString("arch", v.Bound("C02.archlen", 8, 8))
	override := v.NondetString("override", 2)
	info := &nfpm.Info{Arch: arch}
	info.APK.Arch = override
	got := ensureValidArch(info).Arch
	v.Reach("C02.a.ran")
	if override != "" {
		v.Assert(got == override, "arch-override-verbatim")
		return
	}
	documented := false
	for _, row := range v.DocArch["apk"] {
		if arch == row[0] {
			documented = true
			v.Assert(got == row[1], "arch-matches-documented-table")
		}
	}
	if !documented {
		v.Observe("got", got)
	}
	again := &nfpm.Info{Arch: got}
	v.Assert(ensureValidArch(again).Arch == got, "arch-translation-idempotent")
}
