//go:build verif

package apk

import (
	"github.com/goreleaser/nfpm/v2"
	v "github.com/goreleaser/nfpm/v2/internal/zzverif"
)

// Verif_C14_ApkSyntax: apk pkgver is V[_P][-rR][-pM]: release gets an "r"
// prefix, metadata a "p" prefix unless it already names a vcs (cvs/svn/git/hg/p...).
func Verif_C14_ApkSyntax() {
	ver := v.NondetStringRange("ver", 1, 3)
	v.Assume(v.AllIn(ver, "0-9."))
	pre := v.NondetStringRange("pre", 0, 2)
	v.Assume(v.AllIn(pre, "a-z0-9"))
	rel := v.NondetStringRange("rel", 0, 2)
	v.Assume(v.AllIn(rel, "0-9r"))
	meta := v.NondetStringRange("meta", 0, 3)
	v.Assume(v.AllIn(meta, "a-z0-9"))
	got := pkgver(&nfpm.Info{Version: ver, Prerelease: pre, Release: rel, VersionMetadata: meta})
	v.Reach("C14.apk.ran")
	want := ver
	if pre != "" {
		want += "_" + pre
	}
	if rel != "" {
		if rel[0] != 'r' {
			want += "-r" + rel
		} else {
			want += "-" + rel
		}
	}
	if meta != "" {
		keep := meta[0] == 'p' || v.HasPrefix(meta, "cvs") || v.HasPrefix(meta, "svn") || v.HasPrefix(meta, "git") || v.HasPrefix(meta, "hg")
		if keep {
			want += "-" + meta
		} else {
			want += "-p" + meta
		}
	}
	v.Observe("pkgver", got)
	v.Assert(got == want, "apk-version-syntax")
}
