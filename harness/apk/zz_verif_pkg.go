//go:build verif

package apk

import (
	"bytes"

	v "github.com/goreleaser/nfpm/v2/internal/zzverif"
	"github.com/goreleaser/nfpm/v2/internal/zzverif/models"
	"github.com/goreleaser/nfpm/v2/internal/zzverif/scen"
)

type apkSegment struct {
	raw      []byte // the gzip member as shipped
	entries  []models.Entry
	complete bool // tar has the end-of-archive marker
	tarLen   int
}

// verifDecodeApk splits an .apk into its gzip members and decodes each as a tar segment.
func verifDecodeApk(out []byte) ([]apkSegment, bool) {
	var segs []apkSegment
	rest := out
	for len(rest) > 0 {
		kind, tarBytes, r2, ok := models.Decompress(rest)
		if !ok || kind != models.KindGzip {
			return segs, false
		}
		es, complete, ok := models.DecodeTar(tarBytes)
		if !ok {
			return segs, false
		}
		segs = append(segs, apkSegment{raw: rest[:len(rest)-len(r2)], entries: es, complete: complete, tarLen: len(tarBytes)})
		rest = r2
	}
	if !v.Symbolic() {
		// natively also read the package the way apk-tools does: the tar bytes
		// of all gzip members as ONE tar stream. Every member of every segment
		// must be reachable (a stray zero block inside a cut segment is
		// accepted by a per-segment reader but ends or breaks the stream here).
		var all []byte
		n := 0
		for _, sg := range segs {
			_, tb, _, _ := models.Decompress(sg.raw)
			all = append(all, tb...)
			n += len(sg.entries)
		}
		es, _, ok := models.DecodeTar(all)
		if !ok || len(es) != n {
			return segs, false
		}
	}
	return segs, true
}

func Verif_C01_C_ApkModes()  { verifApkPayload(scen.Options{SymModes: true, Second: -1}) }
func Verif_C01_C_ApkOwners() { verifApkPayload(scen.Options{SymOwners: true, Second: 1}) }
func Verif_C01_C_ApkTimes()  { verifApkPayload(scen.Options{SymTimes: true, Second: 3}) }
func Verif_C01_C_ApkContent() {
	verifApkPayload(scen.Options{SymContent: true, SymDst: true, SymType: true, Second: -1})
}

func verifApkPayload(o scen.Options) {
	sc := scen.Payload(o)
	var buf bytes.Buffer
	err := Default.Package(sc.Info, &buf)
	v.Reach("C01.apk.ran")
	if sc.AnyDiskSpecial() {
		v.Assert(err == nil, "apk-packages-special-bits-from-disk")
	} else {
		v.Assert(err == nil, "apk-packages")
	}
	if err != nil {
		return
	}
	segs, ok := verifDecodeApk(buf.Bytes())
	v.Assert(ok && len(segs) == 2, "apk-decodes")
	if !ok || len(segs) != 2 {
		return
	}
	data := segs[1].entries
	wants := sc.ForFormat("apk")
	v.Assert(len(data) == len(wants), "apk-entry-count")
	if len(data) != len(wants) {
		return
	}
	for i, w := range wants {
		e := data[i]
		name := w.Path[1:]
		switch w.Kind {
		case 'f':
			v.Assert(e.Name == name && e.Type == '0', "apk-file-name-type")
			v.Assert(bytes.Equal(e.Data, w.Data), "apk-file-bytes")
			if scen.DiskSpecial(w.Mode) {
				v.Assert(e.Mode == scen.UnixMode(w.Mode), "apk-file-mode-special-bits-from-disk")
			} else {
				v.Assert(e.Mode == scen.UnixMode(w.Mode), "apk-file-mode")
			}
			v.Assert(e.MTime == w.MTime.Unix(), "apk-file-mtime")
			v.Assert(e.Uname == w.Owner && e.Gname == w.Group, "apk-file-owner-group")
		case 'd', 'i':
			v.Assert(e.Name == name+"/" && e.Type == '5', "apk-dir-name-type")
			if w.FromTree {
				v.Assert(e.Mode == scen.UnixMode(w.Mode), "apk-dir-mode-of-tree-directory")
			} else {
				v.Assert(e.Mode == scen.UnixMode(w.Mode), "apk-dir-mode")
			}
			v.Assert(e.Uname == w.Owner && e.Gname == w.Group, "apk-dir-owner-group")
		case 'l':
			v.Assert(e.Name == name && e.Type == '2', "apk-symlink-name-type")
			v.Assert(e.Link == w.Link, "apk-symlink-target")
		}
	}
}

// Verif_C01_C_ApkSources: a tree, a directory source expanded by the glob model, an on-disk symlink.
func Verif_C01_C_ApkSources() { verifApkPayload(scen.Options{Second: -4}) }

// Verif_C01_C_ApkAll_Thorough: modes, umask, owners, content, destination and entry type symbolic at once.
func Verif_C01_C_ApkAll_Thorough() {
	verifApkPayload(scen.Options{SymModes: true, SymOwners: true, SymContent: true, SymDst: true, SymType: true, Second: -1})
}
