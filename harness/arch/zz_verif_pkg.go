//go:build verif

package arch

import (
	"bytes"

	v "github.com/goreleaser/nfpm/v2/internal/zzverif"
	"github.com/goreleaser/nfpm/v2/internal/zzverif/models"
	"github.com/goreleaser/nfpm/v2/internal/zzverif/scen"
)

func verifDecode(out []byte) ([]models.Entry, bool) {
	kind, tarBytes, rest, ok := models.Decompress(out)
	if !ok || kind != models.KindZstd || len(rest) != 0 {
		return nil, false
	}
	es, complete, ok := models.DecodeTar(tarBytes)
	return es, ok && complete
}

// The payload of an archlinux package is exactly the reference plan; one
// family of inputs is symbolic per harness.
func Verif_C01_C_ArchModes()  { verifArchPayload(scen.Options{SymModes: true, Second: -1}) }
func Verif_C01_C_ArchOwners() { verifArchPayload(scen.Options{SymOwners: true, Second: 1}) }
func Verif_C01_C_ArchTimes()  { verifArchPayload(scen.Options{SymTimes: true, Second: 3}) }
func Verif_C01_C_ArchContent() {
	verifArchPayload(scen.Options{SymContent: true, SymDst: true, SymType: true, Second: -1})
}

func verifArchPayload(o scen.Options) {
	sc := scen.Payload(o)
	var buf bytes.Buffer
	err := Default.Package(sc.Info, &buf)
	v.Reach("C01.arch.ran")
	v.Assert(err == nil, "arch-packages")
	if err != nil {
		return
	}
	es, ok := verifDecode(buf.Bytes())
	v.Assert(ok, "arch-zstd-tar-decodes")
	if !ok {
		return
	}
	wants := sc.ForFormat("archlinux")
	// payload entries come first, then .PKGINFO, .MTREE [, .INSTALL]
	v.Assert(len(es) == len(wants)+2, "arch-entry-count")
	if len(es) != len(wants)+2 {
		return
	}
	for i, w := range wants {
		e := es[i]
		name := w.Path[1:]
		switch w.Kind {
		case 'f':
			v.Assert(e.Name == name && e.Type == '0', "arch-file-name-type")
			v.Assert(bytes.Equal(e.Data, w.Data), "arch-file-bytes")
			if scen.DiskSpecial(w.Mode) {
				v.Assert(e.Mode == scen.UnixMode(w.Mode), "arch-file-mode-special-bits-from-disk")
			} else {
				v.Assert(e.Mode == scen.UnixMode(w.Mode), "arch-file-mode")
			}
			v.Assert(e.MTime == w.MTime.Unix(), "arch-file-mtime")
			v.Assert(e.Uname == w.Owner && e.Gname == w.Group, "arch-file-owner-group")
		case 'd', 'i':
			v.Assert(e.Name == name+"/" && e.Type == '5', "arch-dir-name-type")
			if w.FromTree {
				v.Assert(e.Mode == scen.UnixMode(w.Mode), "arch-dir-mode-of-tree-directory")
			} else {
				v.Assert(e.Mode == scen.UnixMode(w.Mode), "arch-dir-mode")
			}
			v.Assert(e.Uname == w.Owner && e.Gname == w.Group, "arch-dir-owner-group")
		case 'l':
			v.Assert(e.Name == name && e.Type == '2', "arch-symlink-name-type")
			v.Assert(e.Link == w.Link, "arch-symlink-target")
		}
	}
	v.Assert(es[len(wants)].Name == ".PKGINFO" && es[len(wants)+1].Name == ".MTREE", "arch-metadata-members")
}

// Verif_C01_C_ArchSources: a tree, a directory source expanded by the glob model, an on-disk symlink.
func Verif_C01_C_ArchSources() { verifArchPayload(scen.Options{Second: -4}) }
