//go:build verif

package arch

import (
	"bytes"
	"crypto/md5"
	"crypto/sha256"
	"strconv"
	"time"

	"github.com/goreleaser/nfpm/v2/files"
	v "github.com/goreleaser/nfpm/v2/internal/zzverif"
	"github.com/goreleaser/nfpm/v2/internal/zzverif/models"
	"github.com/goreleaser/nfpm/v2/internal/zzverif/scen"
)

func verifBuild(sc *scen.Scenario) ([]models.Entry, bool) {
	var buf bytes.Buffer
	err := Default.Package(sc.Info, &buf)
	v.Assert(err == nil, "arch-packages")
	if err != nil {
		return nil, false
	}
	es, ok := verifDecode(buf.Bytes())
	v.Assert(ok, "arch-zstd-tar-decodes")
	return es, ok
}

func verifMtree(es []models.Entry) (string, bool) {
	m := models.Find(es, ".MTREE")
	if m == nil {
		return "", false
	}
	kind, text, rest, ok := models.Decompress(m.Data)
	if !ok || kind != models.KindGzip || len(rest) != 0 {
		return "", false
	}
	return string(text), true
}

// Verif_C03_ArchMtree: .MTREE lists .PKGINFO first and then every payload
// entry with its type, mode, time, size, MD5 and SHA-256 of the bytes shipped,
// and link target; .PKGINFO size is the sum of the file sizes.
func Verif_C03_ArchMtree() { verifArchMtree(scen.Options{SymContent: true, Second: -1}) }

// Verif_C03_ArchMtreeSources: the same for entries found on disk (tree,
// directory source, on-disk symlink with clean and unclean link text) and for
// source files whose on-disk mtime has a fractional part.
func Verif_C03_ArchMtreeSources() {
	verifArchMtree(scen.Options{SubSecond: true, NoPkgTime: v.NondetBool("pkg.mtime.unset"), NoInfoFork: true, Second: -4})
}

func verifArchMtree(o scen.Options) {
	sc := scen.Payload(o)
	if v.NondetBool("symlink.to.a.path.that.exists.on.the.build.host") {
		big := models.AddFile("/src/target", bytes.Repeat([]byte("t"), 3000), 0o644, time.Unix(1500000000, 0).UTC())
		sc.Info.Contents = append(sc.Info.Contents, &files.Content{Source: big, Destination: "/zz/abs", Type: files.TypeSymlink})
	}
	es, ok := verifBuild(sc)
	v.Reach("C03.arch.ran")
	if !ok {
		return
	}
	text, ok := verifMtree(es)
	v.Assert(ok, "arch-mtree-is-a-gzip-member")
	if !ok {
		return
	}
	want := "#mtree\n"
	line := func(e models.Entry) string {
		t := strconv.FormatInt(e.MTime, 10)
		switch e.Type {
		case '5':
			return "./" + e.Name + " time=" + t + ".0 mode=" + strconv.FormatInt(e.Mode, 8) + " type=dir\n"
		case '2':
			return "./" + e.Name + " time=" + t + ".0 mode=777 type=link link=" + e.Link + "\n"
		}
		m5 := md5.Sum(e.Data)
		s256 := sha256.Sum256(e.Data)
		return "./" + e.Name + " time=" + t + ".0 mode=" + strconv.FormatInt(e.Mode, 8) + " size=" + strconv.Itoa(len(e.Data)) +
			" type=file md5digest=" + v.Hex(m5[:]) + " sha256digest=" + v.Hex(s256[:]) + "\n"
	}
	pk := models.Find(es, ".PKGINFO")
	v.Assert(pk != nil, "arch-pkginfo-present")
	if pk == nil {
		return
	}
	want += line(*pk)
	total := 0
	for _, e := range es {
		if e.Name == ".PKGINFO" || e.Name == ".MTREE" || e.Name == ".INSTALL" {
			continue
		}
		want += line(e)
		if e.Type == '0' {
			total += len(e.Data)
		}
	}
	v.Assert(text == want, "arch-mtree-describes-the-shipped-entries")
	sz := v.KV(string(pk.Data), "size")
	v.Assert(len(sz) == 1 && sz[0] == strconv.Itoa(total), "arch-pkginfo-size-is-sum-of-file-sizes")
}

// Verif_C04_ArchStructure: payload, .PKGINFO, .MTREE, then .INSTALL iff a script is configured.
func Verif_C04_ArchStructure() {
	sc := scen.Payload(scen.Options{SymDst: true, Second: -1})
	// none, or exactly one of the six scriptlets archlinux knows (each alone must bring .INSTALL)
	which := v.NondetChoice("script", 7)
	withScript := which > 0
	if withScript {
		p := models.AddFile("/scripts/post", []byte("x"), 0o644, time.Unix(1500000000, 0).UTC())
		switch which {
		case 1:
			sc.Info.Scripts.PreInstall = p
		case 2:
			sc.Info.Scripts.PostInstall = p
		case 3:
			sc.Info.Scripts.PreRemove = p
		case 4:
			sc.Info.Scripts.PostRemove = p
		case 5:
			sc.Info.ArchLinux.Scripts.PreUpgrade = p
		case 6:
			sc.Info.ArchLinux.Scripts.PostUpgrade = p
		}
	}
	// a top-level name that sorts before ".PKGINFO" (pacman's own .CHANGELOG, "+extras", "-"...)
	early := v.NondetChoice("early.toplevel.name", 4)
	if early > 0 {
		name := []string{"", "/.CHANGELOG", "/+x", "/-"}[early]
		src := models.AddFile("/src/early", []byte("e"), 0o644, time.Unix(1500000000, 0).UTC())
		sc.Info.Contents = append(sc.Info.Contents, &files.Content{Source: src, Destination: name})
		sc.Wants = append([]scen.Want{{Path: name, Kind: 'f', Type: files.TypeFile}}, sc.Wants...)
	}
	es, ok := verifBuild(sc)
	v.Reach("C04.arch.ran")
	if !ok {
		return
	}
	if text, okm := verifMtree(es); okm {
		lines := v.Lines(text)
		v.Assert(len(lines) >= 2 && lines[0] == "#mtree" && v.HasPrefix(lines[1], "./.PKGINFO "), "arch-mtree-lists-pkginfo-first")
	} else {
		v.Assert(false, "arch-mtree-is-a-gzip-member")
	}
	n := len(sc.ForFormat("archlinux"))
	wantLen := n + 2
	if withScript {
		wantLen++
	}
	v.Assert(len(es) == wantLen, "arch-member-count")
	if len(es) != wantLen {
		return
	}
	v.Assert(es[n].Name == ".PKGINFO" && es[n+1].Name == ".MTREE", "arch-pkginfo-then-mtree-after-payload")
	if withScript {
		v.Assert(es[n+2].Name == ".INSTALL", "arch-install-present-iff-scripts")
	}
	seen := map[string]bool{}
	okNames := true
	for _, e := range es[:n] {
		if seen[e.Name] || len(e.Name) == 0 || e.Name[0] == '/' {
			okNames = false
		}
		seen[e.Name] = true
		if e.Type == '5' && e.Name[len(e.Name)-1] != '/' {
			okNames = false
		}
	}
	v.Assert(okNames, "arch-member-names-unique-relative-dirs-end-in-slash")
}

// Verif_C08_ArchBackup: .PKGINFO has a backup line for exactly the config* entries.
func Verif_C08_ArchBackup() {
	sc := scen.Payload(scen.Options{SymType: true, SymDst: true, Second: -1})
	es, ok := verifBuild(sc)
	v.Reach("C08.arch.ran")
	if !ok {
		return
	}
	pk := models.Find(es, ".PKGINFO")
	if pk == nil {
		v.Assert(false, "arch-pkginfo-present")
		return
	}
	got := v.KV(string(pk.Data), "backup")
	var want []string
	for _, w := range sc.ForFormat("archlinux") {
		if w.Type == files.TypeConfig || w.Type == files.TypeConfigNoReplace || w.Type == files.TypeConfigMissingOK {
			want = append(want, w.Path[1:])
		}
	}
	same := len(got) == len(want)
	if same {
		for i := range got {
			if got[i] != want[i] {
				same = false
			}
		}
	}
	v.Assert(same, "arch-backup-lists-exactly-the-config-entries")
}

var verifArchSlots = []string{"post_install", "post_remove", "post_upgrade", "pre_install", "pre_remove", "pre_upgrade"}

// Verif_C09_ArchScripts: .INSTALL is the concatenation, in sorted order, of one
// shell function per configured event wrapping the script bytes verbatim.
func Verif_C09_ArchScripts() {
	sc := scen.Payload(scen.Options{UmaskChoice: true})
	mt := time.Unix(1500000000, 0).UTC()
	var body [6][]byte
	var set [6]bool
	any := false
	nlen := v.Bound("C09.len", 2, 6) + 1
	base := v.NondetChoice("script.len", nlen)
	for i, slot := range verifArchSlots {
		set[i] = v.NondetBool("has." + slot)
		if set[i] {
			any = true
			body[i] = []byte(v.NondetStringN("script."+slot, (base+i)%nlen))
			p := models.AddFile("/scripts/"+slot, body[i], 0o600, mt)
			switch slot {
			case "pre_install":
				sc.Info.Scripts.PreInstall = p
			case "post_install":
				sc.Info.Scripts.PostInstall = p
			case "pre_remove":
				sc.Info.Scripts.PreRemove = p
			case "post_remove":
				sc.Info.Scripts.PostRemove = p
			case "pre_upgrade":
				sc.Info.ArchLinux.Scripts.PreUpgrade = p
			case "post_upgrade":
				sc.Info.ArchLinux.Scripts.PostUpgrade = p
			}
		}
	}
	// two events may be served by one script file: both slots must then carry it
	if set[3] && set[0] && v.NondetBool("share.one.file") {
		sc.Info.Scripts.PostInstall = sc.Info.Scripts.PreInstall
		body[0] = body[3]
	}
	es, ok := verifBuild(sc)
	v.Reach("C09.arch.ran")
	if !ok {
		return
	}
	m := models.Find(es, ".INSTALL")
	if !any {
		v.Assert(m == nil, "arch-no-install-member-without-scripts")
		return
	}
	want := ""
	for i, slot := range verifArchSlots {
		if set[i] {
			want += "function " + slot + "() {\n" + string(body[i]) + "\n}\n\n"
		}
	}
	v.Assert(m != nil && string(m.Data) == want, "arch-install-wraps-each-script-verbatim-under-its-event")
}
