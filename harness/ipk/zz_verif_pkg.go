//go:build verif

package ipk

import (
	"bytes"

	v "github.com/goreleaser/nfpm/v2/internal/zzverif"
	"github.com/goreleaser/nfpm/v2/internal/zzverif/models"
	"github.com/goreleaser/nfpm/v2/internal/zzverif/scen"
)

type ipkView struct {
	outer   []models.Entry
	control []models.Entry
	data    []models.Entry
}

func verifTgz(b []byte) ([]models.Entry, bool) {
	kind, tarBytes, rest, ok := models.Decompress(b)
	if !ok || kind != models.KindGzip || len(rest) != 0 {
		return nil, false
	}
	es, complete, ok := models.DecodeTar(tarBytes)
	return es, ok && complete
}

func verifDecodeIpk(out []byte) (ipkView, bool) {
	var d ipkView
	es, ok := verifTgz(out)
	if !ok || len(es) != 3 {
		return d, false
	}
	d.outer = es
	if d.control, ok = verifTgz(es[1].Data); !ok {
		return d, false
	}
	if d.data, ok = verifTgz(es[2].Data); !ok {
		return d, false
	}
	return d, true
}

func Verif_C01_C_IpkModes()  { verifIpkPayload(scen.Options{SymModes: true, Second: -1}) }
func Verif_C01_C_IpkOwners() { verifIpkPayload(scen.Options{SymOwners: true, Second: 1}) }
func Verif_C01_C_IpkTimes()  { verifIpkPayload(scen.Options{SymTimes: true, Second: 3}) }
func Verif_C01_C_IpkContent() {
	verifIpkPayload(scen.Options{SymContent: true, SymDst: true, SymType: true, Second: -1})
}

func verifIpkPayload(o scen.Options) {
	sc := scen.Payload(o)
	var buf bytes.Buffer
	err := Default.Package(sc.Info, &buf)
	v.Reach("C01.ipk.ran")
	v.Assert(err == nil, "ipk-packages")
	if err != nil {
		return
	}
	d, ok := verifDecodeIpk(buf.Bytes())
	v.Assert(ok, "ipk-decodes")
	if !ok {
		return
	}
	wants := sc.ForFormat("ipk")
	v.Assert(len(d.data) == len(wants), "ipk-entry-count")
	if len(d.data) != len(wants) {
		return
	}
	for i, w := range wants {
		e := d.data[i]
		name := "." + w.Path
		switch w.Kind {
		case 'f':
			v.Assert(e.Name == name && e.Type == '0', "ipk-file-name-type")
			v.Assert(bytes.Equal(e.Data, w.Data), "ipk-file-bytes")
			if scen.DiskSpecial(w.Mode) {
				v.Assert(e.Mode == scen.UnixMode(w.Mode), "ipk-file-mode-special-bits-from-disk")
			} else {
				v.Assert(e.Mode == scen.UnixMode(w.Mode), "ipk-file-mode")
			}
			v.Assert(e.MTime == w.MTime.Unix(), "ipk-file-mtime")
			v.Assert(e.Uname == w.Owner && e.Gname == w.Group, "ipk-file-owner-group")
		case 'd', 'i':
			v.Assert(e.Name == name+"/" && e.Type == '5', "ipk-dir-name-type")
			if w.FromTree {
				v.Assert(e.Mode == scen.UnixMode(w.Mode), "ipk-dir-mode-of-tree-directory")
			} else {
				v.Assert(e.Mode == scen.UnixMode(w.Mode), "ipk-dir-mode")
			}
			v.Assert(e.Uname == w.Owner && e.Gname == w.Group, "ipk-dir-owner-group")
		case 'l':
			v.Assert(e.Name == name && e.Type == '2', "ipk-symlink-name-type")
			v.Assert(e.Link == w.Link, "ipk-symlink-target")
		}
	}
}

// Verif_C01_C_IpkSources: a tree, a directory source expanded by the glob model, an on-disk symlink.
func Verif_C01_C_IpkSources() { verifIpkPayload(scen.Options{Second: -4}) }

// Verif_C01_C_IpkAll_Thorough: modes, umask, owners, content, destination and entry type symbolic at once.
func Verif_C01_C_IpkAll_Thorough() {
	verifIpkPayload(scen.Options{SymModes: true, SymOwners: true, SymContent: true, SymDst: true, SymType: true, Second: -1})
}
