//go:build verif

package ipk

import (
	"bytes"
	"time"

	"github.com/goreleaser/nfpm/v2/files"
	v "github.com/goreleaser/nfpm/v2/internal/zzverif"
	"github.com/goreleaser/nfpm/v2/internal/zzverif/models"
	"github.com/goreleaser/nfpm/v2/internal/zzverif/scen"
)

func verifBuild(sc *scen.Scenario) (ipkView, bool) {
	var buf bytes.Buffer
	err := Default.Package(sc.Info, &buf)
	v.Assert(err == nil, "ipk-packages")
	if err != nil {
		return ipkView{}, false
	}
	d, ok := verifDecodeIpk(buf.Bytes())
	v.Assert(ok, "ipk-decodes")
	return d, ok
}

// Verif_C04_IpkStructure: gzip tar of ./debian-binary, ./control.tar.gz, ./data.tar.gz; safe member names.
func Verif_C04_IpkStructure() {
	sc := scen.Payload(scen.Options{SymDst: true, Second: -1})
	d, ok := verifBuild(sc)
	v.Reach("C04.ipk.ran")
	if !ok {
		return
	}
	v.Assert(d.outer[0].Name == "./debian-binary" && string(d.outer[0].Data) == "2.0\n", "ipk-debian-binary-first")
	v.Assert(d.outer[1].Name == "./control.tar.gz" && d.outer[2].Name == "./data.tar.gz", "ipk-control-then-data")
	v.Assert(len(d.control) >= 2 && d.control[0].Name == "./control" && d.control[1].Name == "./conffiles", "ipk-control-members")
	seen := map[string]bool{}
	okNames := true
	for _, e := range d.data {
		if seen[e.Name] || len(e.Name) < 2 || e.Name[:2] != "./" {
			okNames = false
		}
		seen[e.Name] = true
		if e.Type == '5' && e.Name[len(e.Name)-1] != '/' {
			okNames = false
		}
	}
	v.Assert(okNames, "ipk-member-names-unique-dot-slash-dirs-end-in-slash")
}

// Verif_C03_IpkInstalledSize: small payloads have no Installed-Size field (it is a KiB figure, omitted when zero).
func Verif_C03_IpkInstalledSize() {
	sc := scen.Payload(scen.Options{SymContent: true, Second: 3})
	d, ok := verifBuild(sc)
	v.Reach("C03.ipk.ran")
	if !ok {
		return
	}
	ctl := models.Find(d.control, "./control")
	v.Assert(ctl != nil, "ipk-control-present")
	if ctl != nil {
		_, has := v.Field822(string(ctl.Data), "Installed-Size")
		v.Assert(!has, "ipk-installed-size-omitted-when-zero-kib")
	}
}

// Verif_C03_IpkInstalledSizeKernel: the rendered field is bytes/1024, present iff non-zero.
func Verif_C03_IpkInstalledSizeKernel() {
	n := v.NondetI64("instsize")
	v.Assume(n >= 0)
	v.Assume(n < 1<<30)
	sc := scen.Payload(scen.Options{})
	var body bytes.Buffer
	err := renderControl(&body, controlData{Info: sc.Info, InstalledSize: n / 1024})
	v.Reach("C03.ipk.kernel.ran")
	v.Assert(err == nil, "ipk-control-renders")
	sz, has := v.Field822(body.String(), "Installed-Size")
	if n/1024 == 0 {
		v.Assert(!has, "ipk-installed-size-omitted-when-zero-kib")
	} else {
		v.Assert(has, "ipk-installed-size-present")
		v.Observe("sz", sz)
	}
}

// Verif_C08_IpkConffiles: conffiles lists exactly the config* entries by absolute path.
func Verif_C08_IpkConffiles() {
	sc := scen.Payload(scen.Options{SymType: true, SymDst: true, Second: -1})
	d, ok := verifBuild(sc)
	v.Reach("C08.ipk.ran")
	if !ok {
		return
	}
	want := ""
	n := 0
	for _, w := range sc.ForFormat("ipk") {
		if w.Type == files.TypeConfig || w.Type == files.TypeConfigNoReplace || w.Type == files.TypeConfigMissingOK {
			if n > 0 {
				want += "\n"
			}
			want += w.Path
			n++
		}
	}
	want += "\n"
	m := models.Find(d.control, "./conffiles")
	v.Assert(m != nil && string(m.Data) == want, "ipk-conffiles-lists-exactly-the-config-entries")
}

var verifIpkSlots = []string{"preinst", "postinst", "prerm", "postrm"}

// Verif_C09_IpkScripts: configured scripts are control members under their opkg name, verbatim, mode 0755.
func Verif_C09_IpkScripts() {
	sc := scen.Payload(scen.Options{UmaskChoice: true})
	mt := time.Unix(1500000000, 0).UTC()
	var body [4][]byte
	var set [4]bool
	nlen := v.Bound("C09.len", 2, 6) + 1
	base := v.NondetChoice("script.len", nlen)
	for i, slot := range verifIpkSlots {
		set[i] = v.NondetBool("has." + slot)
		if set[i] {
			body[i] = []byte(v.NondetStringN("script."+slot, (base+i)%nlen))
			p := models.AddFile("/scripts/"+slot, body[i], 0o600, mt)
			switch i {
			case 0:
				sc.Info.Scripts.PreInstall = p
			case 1:
				sc.Info.Scripts.PostInstall = p
			case 2:
				sc.Info.Scripts.PreRemove = p
			case 3:
				sc.Info.Scripts.PostRemove = p
			}
		}
	}
	// two events may be served by one script file: both slots must then carry it
	if set[0] && set[1] && v.NondetBool("share.one.file") {
		sc.Info.Scripts.PostInstall = sc.Info.Scripts.PreInstall
		body[1] = body[0]
	}
	d, ok := verifBuild(sc)
	v.Reach("C09.ipk.ran")
	if !ok {
		return
	}
	for i, slot := range verifIpkSlots {
		m := models.Find(d.control, "./"+slot)
		if !set[i] {
			v.Assert(m == nil, "ipk-unconfigured-slot-absent")
			continue
		}
		v.Assert(m != nil, "ipk-configured-slot-present")
		if m != nil {
			v.Assert(bytes.Equal(m.Data, body[i]), "ipk-script-bytes-verbatim-in-its-slot")
			v.Assert(m.Mode == 0o755, "ipk-script-mode")
		}
	}
}
