//go:build verif

package rpm

import (
	"bytes"
	"time"

	v "github.com/goreleaser/nfpm/v2/internal/zzverif"
	"github.com/goreleaser/nfpm/v2/internal/zzverif/models"
	"github.com/goreleaser/nfpm/v2/internal/zzverif/scen"
)

var verifRpmSlots = []string{"prein", "postin", "preun", "postun", "pretrans", "posttrans", "verify"}

// Verif_C09_RpmScripts: each configured script is the scriptlet of its own event, verbatim; others are empty.
func Verif_C09_RpmScripts() {
	sc := scen.Payload(scen.Options{UmaskChoice: true})
	mt := time.Unix(1500000000, 0).UTC()
	var body [7][]byte
	var set [7]bool
	nlen := v.Bound("C09.len", 2, 6) + 1
	base := v.NondetChoice("script.len", nlen)
	for i, slot := range verifRpmSlots {
		set[i] = v.NondetBool("has." + slot)
		if set[i] {
			str := v.NondetStringN("script."+slot, 1+(base+i)%nlen)
			// rpm keeps scriptlets in NUL-terminated header strings: NUL bytes are a
			// limit of the format (rpmpack's serialiser is outside the model), not of nfpm
			v.Assume(v.AllIn(str, "\x01-\xff"))
			body[i] = []byte(str)
			p := models.AddFile("/scripts/"+slot, body[i], 0o600, mt)
			switch i {
			case 0:
				sc.Info.Scripts.PreInstall = p
			case 1:
				sc.Info.Scripts.PostInstall = p
			case 2:
				sc.Info.Scripts.PreRemove = p
			case 3:
				sc.Info.Scripts.PostRemove = p
			case 4:
				sc.Info.RPM.Scripts.PreTrans = p
			case 5:
				sc.Info.RPM.Scripts.PostTrans = p
			case 6:
				sc.Info.RPM.Scripts.Verify = p
			}
		}
	}
	// two events may be served by one script file: both slots must then carry it
	if set[0] && set[1] && v.NondetBool("share.one.file") {
		sc.Info.Scripts.PostInstall = sc.Info.Scripts.PreInstall
		body[1] = body[0]
	}
	var buf bytes.Buffer
	err := Default.Package(sc.Info, &buf)
	v.Reach("C09.rpm.ran")
	v.Assert(err == nil, "rpm-packages")
	if err != nil {
		return
	}
	vw, ok := models.DecodeRPM(buf.Bytes())
	v.Assert(ok, "rpm-decodes")
	if !ok {
		return
	}
	got := []string{vw.Prein, vw.Postin, vw.Preun, vw.Postun, vw.Pretrans, vw.Posttrans, vw.Verify}
	for i := range verifRpmSlots {
		if set[i] {
			v.Assert(got[i] == string(body[i]), "rpm-scriptlet-is-the-configured-script-verbatim")
		} else {
			v.Assert(got[i] == "", "rpm-unconfigured-scriptlet-empty")
		}
	}
}

// Verif_C08_RpmFlags: every entry type gets exactly its rpm file flag (config / noreplace / missingok / ghost).
func Verif_C08_RpmFlags() { verifRpmPayload(scen.Options{SymType: true, Second: -2}) }

// Verif_C08_RpmGhostMode: a ghost without a mode of its own is listed with 0644
// whatever the umask (all 32-bit umasks), with the ghost flag and no payload.
func Verif_C08_RpmGhostMode() { verifRpmPayload(scen.Options{SymModes: true, Second: 4}) }

// Verif_C08_RpmDocFlags: doc, licence/license and readme entries carry exactly their flag (and exist only in rpm).
func Verif_C08_RpmDocFlags() { verifRpmPayload(scen.Options{Second: -3}) }
