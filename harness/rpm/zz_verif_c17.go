//go:build verif

package rpm

import (
	"github.com/google/rpmpack"
	v "github.com/goreleaser/nfpm/v2/internal/zzverif"
)

func verifInEnum(s string, enum []string) bool {
	for _, e := range enum {
		if s == e {
			return true
		}
	}
	return false
}

// Verif_C17_RpmCompression: every rpm.compression value the packager accepts
// (real rpmpack.setupCompressor, incl. the type:level form) validates against
// the schema of the field, and every enum value is accepted.
func Verif_C17_RpmCompression() {
	enum := v.SchemaEnums["RPM.Compression"]
	v.Reach("C17.rpm.compression.ran")
	for _, e := range enum {
		info := verifInfo("1.0.0", "", "", "", "")
		info.RPM.Compression = e
		m, err := buildRPMMeta(info)
		if err == nil {
			_, err = newRPM(m)
		}
		v.Assert(err == nil, "rpm-compression-enum-value-is-accepted")
	}
	// the values the documentation shows (incl. the field's default) build
	for _, d := range []string{"gzip", "lzma", "xz", "zstd", "gzip:-1", "gzip:9", "zstd:3"} {
		info := verifInfo("1.0.0", "", "", "", "")
		info.RPM.Compression = d
		m, err := buildRPMMeta(info)
		if err == nil {
			_, err = newRPM(m)
		}
		v.Assert(err == nil, "rpm-compression-documented-value-is-accepted")
		if len(enum) > 0 {
			v.Assert(verifInEnum(d, enum), "rpm-compression-accepted-value-is-in-the-schema-enum")
		}
	}
	// a pattern keyword, if the tag has one, must let through every accepted candidate
	for _, c := range v.PatternCandidates {
		info := verifInfo("1.0.0", "", "", "", "")
		info.RPM.Compression = c
		m, err := buildRPMMeta(info)
		if err == nil {
			_, err = newRPM(m)
		}
		if err == nil {
			v.Assert(v.SchemaAllows("RPM.Compression", c), "rpm-compression-accepted-value-passes-the-schema-keywords")
		}
	}
	s := v.NondetString("compression", v.Bound("C17.len", 6, 8))
	v.Assume(v.AllIn(s, "a-z0-9:-"))
	info := verifInfo("1.0.0", "", "", "", "")
	info.RPM.Compression = s
	m, err := buildRPMMeta(info)
	if err == nil {
		_, err = newRPM(m)
	}
	if err == nil && s != "" {
		if len(enum) > 0 {
			v.Assert(verifInEnum(s, enum), "rpm-compression-accepted-value-is-in-the-schema-enum")
		}
	}
}

func newRPM(m *rpmpack.RPMMetaData) (*rpmpack.RPM, error) { return rpmpack.NewRPM(*m) }
