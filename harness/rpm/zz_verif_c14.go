//go:build verif

package rpm

import (
	"time"

	"github.com/goreleaser/nfpm/v2"
	v "github.com/goreleaser/nfpm/v2/internal/zzverif"
)

// verifNum returns a decimal number of 1..maxDigits symbolic digits without leading zero.
func verifNum(name string, maxDigits int) string {
	s := v.NondetStringRange(name, 1, maxDigits)
	v.Assume(v.AllIn(s, "0-9"))
	if len(s) > 1 {
		v.Assume(s[0] != '0')
	}
	return s
}

//verif:summarize
func verifNumLess(a, b string) bool {
	if len(a) != len(b) {
		return len(a) < len(b)
	}
	return a < b
}

func verifAlnum(name string, lo, hi int) string {
	s := v.NondetStringRange(name, lo, hi)
	v.Assume(v.AllIn(s, "0-9a-zA-Z"))
	return s
}

func verifPre(name string, lo, hi int) string {
	s := v.NondetStringRange(name, lo, hi)
	if len(s) > 0 {
		v.Assume(v.SemverIdent(s))
	}
	return s
}

// verifMeta: semver build metadata of lo..hi bytes over [0-9A-Za-z-].
func verifMeta(name string, lo, hi int) string {
	s := v.NondetStringRange(name, lo, hi)
	v.Assume(v.AllIn(s, "0-9a-zA-Z-"))
	return s
}

// verifVerbatim: a version that is not a semantic version (schema none, or
// one that does not parse) over the characters such versions use.
func verifVerbatim(name string, lo, hi int) string {
	s := v.NondetStringRange(name, lo, hi)
	v.Assume(v.AllIn(s, "0-9a-z.+_-"))
	return s
}

func verifInfo(ver, pre, meta, rel, epoch string) *nfpm.Info {
	return &nfpm.Info{
		Name: "p", Arch: "amd64", Platform: "linux", Version: ver, Prerelease: pre, VersionMetadata: meta,
		Release: rel, Epoch: epoch, MTime: time.Unix(1700000000, 0).UTC(),
		Overridables: nfpm.Overridables{RPM: nfpm.RPM{BuildHost: "h"}},
	}
}

//verif:summarize
func replaceDash(s string) string {
	b := []byte(s)
	for i := range b {
		if b[i] == '-' {
			b[i] = '_'
		}
	}
	return string(b)
}

// Verif_C14_RpmSyntax: rpm version = V[~P'][+M] with '-' in the prerelease
// escaped, release defaults to 1, epoch is the configured number.
func Verif_C14_RpmSyntax() {
	ver := verifNum("maj", 2) + "." + verifNum("min", 1) + "." + verifNum("pat", 1)
	pre := verifPre("pre", 0, v.Bound("C14.prelen", 3, 5))
	meta := verifMeta("meta", 0, 2)
	rel := verifAlnum("rel", 0, 1)
	epoch := ""
	if v.NondetBool("hasEpoch") {
		// 1-3 decimal digits, leading zeros allowed ("010" is ten, as dpkg reads the same configuration)
		epoch = v.NondetStringRange("epoch", 1, 3)
		v.Assume(v.AllIn(epoch, "0-9"))
	}
	m, err := buildRPMMeta(verifInfo(ver, pre, meta, rel, epoch))
	v.Reach("C14.rpm.syntax.ran")
	v.Assert(err == nil, "rpm-meta-builds")
	if err != nil {
		return
	}
	want := ver
	if pre != "" {
		want += "~" + replaceDash(pre)
	}
	if meta != "" {
		want += "+" + meta
	}
	v.Observe("version", m.Version)
	v.Assert(m.Version == want, "rpm-version-syntax")
	if rel == "" {
		v.Assert(m.Release == "1", "rpm-release-defaults-to-1")
	} else {
		v.Assert(m.Release == rel, "rpm-release-verbatim")
	}
	if epoch == "" {
		v.Assert(m.Epoch == 0xffffffff, "rpm-no-epoch")
	} else {
		n := 0
		for i := 0; i < len(epoch); i++ {
			n = n*10 + int(epoch[i]-'0')
		}
		v.Assert(int(m.Epoch) == n, "rpm-epoch-number")
	}
	// each component appears exactly once
	v.Assert(v.Count(m.Version, "~") == boolInt(pre != ""), "rpm-one-tilde")
	v.Assert(v.Count(m.Version, "+") == boolInt(meta != ""), "rpm-one-plus")
}

func boolInt(b bool) int {
	if b {
		return 1
	}
	return 0
}

func evr(info *nfpm.Info) (uint32, string, string, bool) {
	m, err := buildRPMMeta(info)
	if err != nil {
		return 0, "", "", false
	}
	e := m.Epoch
	if e == 0xffffffff { // rpmpack.NoEpoch: no epoch tag, compared as 0
		e = 0
	}
	return e, m.Version, m.Release, true
}

// Verif_C14_RpmPrereleaseSortsFirst: V~P[+M]-R < V[+M]-R under rpm's EVR comparison.
func Verif_C14_RpmPrereleaseSortsFirst() {
	ver := verifNum("maj", 2) + "." + verifNum("min", 1) + "." + verifNum("pat", 1)
	pre := verifPre("pre", 1, v.Bound("C14.prelen", 3, 5))
	meta := verifAlnum("meta", 0, 1)
	rel := verifAlnum("rel", 0, 1)
	e1, v1, r1, ok1 := evr(verifInfo(ver, pre, meta, rel, ""))
	e2, v2, r2, ok2 := evr(verifInfo(ver, "", meta, rel, ""))
	v.Reach("C14.rpm.pre.ran")
	v.Assert(ok1 && ok2, "rpm-meta-builds")
	v.Assert(v.RpmEVRCompare(e1, v1, r1, e2, v2, r2) < 0, "rpm-prerelease-sorts-before-release")
}

// Verif_C14_RpmNumericOrder: a numerically smaller major.minor.patch sorts first,
// whatever prerelease/metadata either side carries.
func Verif_C14_RpmNumericOrder() {
	a := [3]string{verifNum("a.maj", 2), verifNum("a.min", 2), verifNum("a.pat", 1)}
	b := [3]string{verifNum("b.maj", 2), verifNum("b.min", 2), verifNum("b.pat", 1)}
	less := verifNumLess(a[0], b[0]) || a[0] == b[0] && (verifNumLess(a[1], b[1]) || a[1] == b[1] && verifNumLess(a[2], b[2]))
	v.Assume(less)
	preA, preB := verifPre("a.pre", 0, 2), verifPre("b.pre", 0, 2)
	metaA, metaB := verifAlnum("a.meta", 0, 1), verifAlnum("b.meta", 0, 1)
	e1, v1, r1, ok1 := evr(verifInfo(a[0]+"."+a[1]+"."+a[2], preA, metaA, "", ""))
	e2, v2, r2, ok2 := evr(verifInfo(b[0]+"."+b[1]+"."+b[2], preB, metaB, "", ""))
	v.Reach("C14.rpm.num.ran")
	v.Assert(ok1 && ok2, "rpm-meta-builds")
	v.Assert(v.RpmEVRCompare(e1, v1, r1, e2, v2, r2) < 0, "rpm-numeric-order")
}

// Verif_C14_RpmEpochDominates: a higher epoch sorts after a lower one whatever the rest.
func Verif_C14_RpmEpochDominates() {
	ea, eb := verifNum("a.epoch", 2), verifNum("b.epoch", 2)
	v.Assume(verifNumLess(ea, eb))
	va := verifNum("a.maj", 2) + "." + verifNum("a.min", 1) + ".0"
	vb := verifNum("b.maj", 2) + "." + verifNum("b.min", 1) + ".0"
	preA, preB := verifPre("a.pre", 0, 2), verifPre("b.pre", 0, 2)
	e1, v1, r1, ok1 := evr(verifInfo(va, preA, "", verifAlnum("a.rel", 0, 1), ea))
	e2, v2, r2, ok2 := evr(verifInfo(vb, preB, "", verifAlnum("b.rel", 0, 1), eb))
	v.Reach("C14.rpm.epoch.ran")
	v.Assert(ok1 && ok2, "rpm-meta-builds")
	v.Assert(v.RpmEVRCompare(e1, v1, r1, e2, v2, r2) < 0, "rpm-higher-epoch-sorts-after")
}

// Verif_C14_RpmVerbatim: a version that is used as written (schema none / not
// a semantic version: no prerelease, no metadata) is the header's VERSION
// verbatim, whatever characters it holds.
func Verif_C14_RpmVerbatim() {
	ver := verifVerbatim("ver", 1, v.Bound("C14.verbatimlen", 3, 5))
	m, err := buildRPMMeta(verifInfo(ver, "", "", "", ""))
	v.Reach("C14.rpm.verbatim.ran")
	v.Assert(err == nil, "rpm-meta-builds")
	if err != nil {
		return
	}
	v.Assert(m.Version == ver, "rpm-verbatim-version-kept-as-written")
}
