//go:build verif

package rpm

import (
	"bytes"

	"github.com/google/rpmpack"
	"github.com/goreleaser/nfpm/v2/files"
	v "github.com/goreleaser/nfpm/v2/internal/zzverif"
	"github.com/goreleaser/nfpm/v2/internal/zzverif/models"
	"github.com/goreleaser/nfpm/v2/internal/zzverif/scen"
)

func Verif_C01_C_RpmModes()  { verifRpmPayload(scen.Options{SymModes: true, Second: -2}) }
func Verif_C01_C_RpmOwners() { verifRpmPayload(scen.Options{SymOwners: true, Second: 1}) }
func Verif_C01_C_RpmTimes()  { verifRpmPayload(scen.Options{SymTimes: true, Second: 3}) }
func Verif_C01_C_RpmContent() {
	verifRpmPayload(scen.Options{SymContent: true, SymDst: true, SymType: true, Second: -2})
}

func verifFlagsOf(typ string) uint32 {
	switch typ {
	case files.TypeConfig:
		return uint32(rpmpack.ConfigFile)
	case files.TypeConfigNoReplace:
		return uint32(rpmpack.ConfigFile | rpmpack.NoReplaceFile)
	case files.TypeConfigMissingOK:
		return uint32(rpmpack.ConfigFile | rpmpack.MissingOkFile)
	case files.TypeRPMGhost:
		return uint32(rpmpack.GhostFile)
	case files.TypeRPMDoc:
		return uint32(rpmpack.DocFile)
	case files.TypeRPMLicence, files.TypeRPMLicense:
		return uint32(rpmpack.LicenceFile)
	case files.TypeRPMReadme:
		return uint32(rpmpack.ReadmeFile)
	}
	return 0
}

func verifRpmPayload(o scen.Options) {
	sc := scen.Payload(o)
	var buf bytes.Buffer
	err := Default.Package(sc.Info, &buf)
	v.Reach("C01.rpm.ran")
	v.Assert(err == nil, "rpm-packages")
	if err != nil {
		return
	}
	vw, ok := models.DecodeRPM(buf.Bytes())
	v.Assert(ok, "rpm-decodes")
	if !ok {
		return
	}
	wants := sc.ForFormat("rpm")
	v.Assert(len(vw.Files) == len(wants), "rpm-entry-count")
	if len(vw.Files) != len(wants) {
		return
	}
	for i, w := range wants {
		f := vw.Files[i]
		v.Assert(f.Name == w.Path, "rpm-entry-name")
		v.Assert(f.Owner == w.Owner && f.Group == w.Group, "rpm-owner-group")
		switch w.Kind {
		case 'f':
			v.Assert(bytes.Equal(f.Body, w.Data), "rpm-file-bytes")
			if scen.DiskSpecial(w.Mode) {
				v.Assert(int64(f.Mode)&0o7777 == scen.UnixMode(w.Mode), "rpm-file-mode-special-bits-from-disk")
			} else {
				v.Assert(int64(f.Mode)&0o7777 == scen.UnixMode(w.Mode), "rpm-file-mode")
			}
			v.Assert(f.MTime == uint32(w.MTime.Unix()), "rpm-file-mtime")
			v.Assert(f.Flags == verifFlagsOf(w.Type), "rpm-file-flags")
		case 'd':
			v.Assert(int64(f.Mode) == scen.UnixMode(w.Mode)|0o40000, "rpm-dir-mode")
		case 'l':
			v.Assert(f.Mode&0o170000 == 0o120000, "rpm-symlink-type")
			v.Assert(string(f.Body) == w.Link, "rpm-symlink-target")
		case 'g':
			v.Assert(f.Flags == uint32(rpmpack.GhostFile), "rpm-ghost-flag")
			v.Assert(int64(f.Mode)&0o7777 == 0o644, "rpm-ghost-default-mode")
			v.Assert(len(f.Body) == 0, "rpm-ghost-no-payload")
		}
	}
}

// Verif_C01_C_RpmSources: a tree, a directory source expanded by the glob model, an on-disk symlink.
func Verif_C01_C_RpmSources() { verifRpmPayload(scen.Options{Second: -4}) }

// Verif_C01_C_RpmAll_Thorough: modes, umask, owners, content, destination and entry type symbolic at once.
func Verif_C01_C_RpmAll_Thorough() {
	verifRpmPayload(scen.Options{SymModes: true, SymOwners: true, SymContent: true, SymDst: true, SymType: true, Second: -2})
}
