//go:build verif

package zzverif

// Reference oracles used by harnesses. They are written from the published
// descriptions of the algorithms (Debian policy 5.6.12 / dpkg lib/dpkg/version.c,
// rpm rpmio/rpmvercmp.c), share no code with nfpm, and are validated natively
// on known vectors by /verif/oracle_test (run by ./check selftest).

func isDigit(c byte) bool { return c >= '0' && c <= '9' }
func isAlpha(c byte) bool { return c >= 'a' && c <= 'z' || c >= 'A' && c <= 'Z' }
func isAlnum(c byte) bool { return isDigit(c) || isAlpha(c) }

// ---------------------------------------------------------------- dpkg

func dpkgOrder(s string) int {
	if len(s) == 0 {
		return 0
	}
	c := s[0]
	switch {
	case isDigit(c):
		return 0
	case isAlpha(c):
		return int(c)
	case c == '~':
		return -1
	}
	return int(c) + 256
}

//verif:summarize
func verrevcmp(a, b string) int {
	for len(a) > 0 || len(b) > 0 {
		firstDiff := 0
		for (len(a) > 0 && !isDigit(a[0])) || (len(b) > 0 && !isDigit(b[0])) {
			ac, bc := dpkgOrder(a), dpkgOrder(b)
			if ac != bc {
				return ac - bc
			}
			a, b = a[1:], b[1:]
		}
		for len(a) > 0 && a[0] == '0' {
			a = a[1:]
		}
		for len(b) > 0 && b[0] == '0' {
			b = b[1:]
		}
		for len(a) > 0 && isDigit(a[0]) && len(b) > 0 && isDigit(b[0]) {
			if firstDiff == 0 {
				firstDiff = int(a[0]) - int(b[0])
			}
			a, b = a[1:], b[1:]
		}
		if len(a) > 0 && isDigit(a[0]) {
			return 1
		}
		if len(b) > 0 && isDigit(b[0]) {
			return -1
		}
		if firstDiff != 0 {
			return firstDiff
		}
	}
	return 0
}

// dpkgSplit splits [epoch:]upstream[-revision]. ok=false when the epoch is not a number.
//
//verif:summarize
func dpkgSplit(v string) (epoch int, upstream, revision string, ok bool) {
	ok = true
	for i := 0; i < len(v); i++ {
		if v[i] == ':' {
			if i == 0 {
				return 0, "", "", false
			}
			for j := 0; j < i; j++ {
				if !isDigit(v[j]) {
					return 0, "", "", false
				}
				epoch = epoch*10 + int(v[j]-'0')
			}
			v = v[i+1:]
			break
		}
	}
	upstream = v
	for i := len(v) - 1; i >= 0; i-- {
		if v[i] == '-' {
			upstream, revision = v[:i], v[i+1:]
			break
		}
	}
	return
}

// DpkgCompare compares two Debian version strings; ok=false if one has a malformed epoch.
//
//verif:summarize
func DpkgCompare(a, b string) (int, bool) {
	ea, ua, ra, oka := dpkgSplit(a)
	eb, ub, rb, okb := dpkgSplit(b)
	if !oka || !okb {
		return 0, false
	}
	if ea != eb {
		return ea - eb, true
	}
	if c := verrevcmp(ua, ub); c != 0 {
		return c, true
	}
	return verrevcmp(ra, rb), true
}

// ---------------------------------------------------------------- rpm

//verif:summarize
func RpmVerCmp(a, b string) int {
	if a == b {
		return 0
	}
	one, two := a, b
	for len(one) > 0 || len(two) > 0 {
		for len(one) > 0 && !isAlnum(one[0]) && one[0] != '~' && one[0] != '^' {
			one = one[1:]
		}
		for len(two) > 0 && !isAlnum(two[0]) && two[0] != '~' && two[0] != '^' {
			two = two[1:]
		}
		t1 := len(one) > 0 && one[0] == '~'
		t2 := len(two) > 0 && two[0] == '~'
		if t1 || t2 {
			if !t1 {
				return 1
			}
			if !t2 {
				return -1
			}
			one, two = one[1:], two[1:]
			continue
		}
		c1 := len(one) > 0 && one[0] == '^'
		c2 := len(two) > 0 && two[0] == '^'
		if c1 || c2 {
			if len(one) == 0 {
				return -1
			}
			if len(two) == 0 {
				return 1
			}
			if !c1 {
				return 1
			}
			if !c2 {
				return -1
			}
			one, two = one[1:], two[1:]
			continue
		}
		if len(one) == 0 || len(two) == 0 {
			break
		}
		isnum := isDigit(one[0])
		i, j := 0, 0
		if isnum {
			for i < len(one) && isDigit(one[i]) {
				i++
			}
			for j < len(two) && isDigit(two[j]) {
				j++
			}
		} else {
			for i < len(one) && isAlpha(one[i]) {
				i++
			}
			for j < len(two) && isAlpha(two[j]) {
				j++
			}
		}
		s1, s2 := one[:i], two[:j]
		if len(s2) == 0 {
			if isnum {
				return 1
			}
			return -1
		}
		if isnum {
			for len(s1) > 0 && s1[0] == '0' {
				s1 = s1[1:]
			}
			for len(s2) > 0 && s2[0] == '0' {
				s2 = s2[1:]
			}
			if len(s1) > len(s2) {
				return 1
			}
			if len(s2) > len(s1) {
				return -1
			}
		}
		if s1 != s2 {
			if s1 < s2 {
				return -1
			}
			return 1
		}
		one, two = one[i:], two[j:]
	}
	if len(one) == 0 && len(two) == 0 {
		return 0
	}
	if len(one) == 0 {
		return -1
	}
	return 1
}

// RpmEVRCompare compares (epoch, version, release) triples the way rpm does.
//
//verif:summarize
func RpmEVRCompare(e1 uint32, v1, r1 string, e2 uint32, v2, r2 string) int {
	if e1 != e2 {
		if e1 < e2 {
			return -1
		}
		return 1
	}
	if c := RpmVerCmp(v1, v2); c != 0 {
		return c
	}
	return RpmVerCmp(r1, r2)
}

// ---------------------------------------------------------------- small helpers

// Itoa2 renders 0..99 without library code.
func Itoa2(n int) string {
	if n < 10 {
		return string([]byte{byte('0' + n)})
	}
	return string([]byte{byte('0' + n/10), byte('0' + n%10)})
}

//verif:summarize
func HasByte(s string, c byte) bool {
	for i := 0; i < len(s); i++ {
		if s[i] == c {
			return true
		}
	}
	return false
}

//verif:summarize
func HasPrefix(s, p string) bool { return len(s) >= len(p) && s[:len(p)] == p }

//verif:summarize
func HasSuffix(s, p string) bool { return len(s) >= len(p) && s[len(s)-len(p):] == p }

// Count returns the number of non-overlapping occurrences of sub (non-empty) in s.
//
//verif:summarize
func Count(s, sub string) int {
	n := 0
	for i := 0; i+len(sub) <= len(s); {
		if s[i:i+len(sub)] == sub {
			n++
			i += len(sub)
		} else {
			i++
		}
	}
	return n
}

// SemverIdent reports whether s is a non-empty run of [0-9A-Za-z-] identifiers separated by single dots.
//
//verif:summarize
func SemverIdent(s string) bool {
	if len(s) == 0 || s[0] == '.' || s[len(s)-1] == '.' {
		return false
	}
	for i := 0; i < len(s); i++ {
		c := s[i]
		if !(isAlnum(c) || c == '-' || c == '.') {
			return false
		}
		if c == '.' && s[i-1] == '.' {
			return false
		}
	}
	return true
}

// ---------------------------------------------------------------- text formats

// Lines splits on '\n'; a trailing newline does not yield an empty last line.
func Lines(s string) []string {
	var out []string
	start := 0
	for i := 0; i < len(s); i++ {
		if s[i] == '\n' {
			out = append(out, s[start:i])
			start = i + 1
		}
	}
	if start < len(s) {
		out = append(out, s[start:])
	}
	return out
}

// Field822 returns the (unfolded, first-line) value of a "Key: value" field of the FIRST deb822 stanza of text.
func Field822(text, key string) (string, bool) {
	seen := false
	for _, l := range Lines(text) {
		blank := true
		for i := 0; i < len(l); i++ {
			if l[i] != ' ' && l[i] != '\t' {
				blank = false
			}
		}
		if blank {
			if seen {
				break // a blank line ends the stanza: what follows belongs to no package
			}
			continue
		}
		seen = true
		if len(l) > len(key)+1 && l[:len(key)] == key && l[len(key)] == ':' {
			v := l[len(key)+1:]
			for len(v) > 0 && v[0] == ' ' {
				v = v[1:]
			}
			return v, true
		}
	}
	return "", false
}

// KV returns all values of "key = value" lines (apk / archlinux .PKGINFO).
func KV(text, key string) []string {
	var out []string
	for _, l := range Lines(text) {
		if len(l) >= len(key)+3 && l[:len(key)] == key && l[len(key):len(key)+3] == " = " {
			out = append(out, l[len(key)+3:])
		}
	}
	return out
}

const hexdigits = "0123456789abcdef"

// Hex renders bytes as lower-case hexadecimal.
func Hex(b []byte) string {
	out := make([]byte, 0, 2*len(b))
	for _, c := range b {
		out = append(out, hexdigits[c>>4], hexdigits[c&15])
	}
	return string(out)
}

// SchemaAllows: a concrete setting value passes the enum and pattern keywords
// of the field's jsonschema tag ("Struct.Field"). The pattern is evaluated by
// the generator (Go regexp) over PatternCandidates and the enum values; any
// other value, or a pattern Go cannot compile, is unsupported (exit 2).
func SchemaAllows(key, val string) bool {
	if enum := SchemaEnums[key]; len(enum) > 0 {
		in := false
		for _, e := range enum {
			if e == val {
				in = true
			}
		}
		if !in {
			return false
		}
	}
	if _, has := SchemaPatterns[key]; has {
		m := SchemaPatternOK[key]
		if m == nil {
			Unsupported("the pattern keyword of " + key + " cannot be evaluated")
		}
		ok, known := m[val]
		if !known {
			Unsupported("no pattern verdict for " + key + " = " + val)
		}
		return ok
	}
	return true
}
