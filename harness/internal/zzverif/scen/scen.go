//go:build verif

// Package scen builds the symbolic packaging scenarios shared by the
// whole-Package harnesses of the five packagers, together with the reference
// plan (what the property text says the payload must contain), computed
// without calling into files.PrepareForPackager.
package scen

import (
	"io/fs"
	"time"

	"github.com/goreleaser/nfpm/v2"
	"github.com/goreleaser/nfpm/v2/files"
	zz "github.com/goreleaser/nfpm/v2/internal/zzverif"
	"github.com/goreleaser/nfpm/v2/internal/zzverif/models"
)

const ChmodBits = fs.ModePerm | fs.ModeSetuid | fs.ModeSetgid | fs.ModeSticky

// Want is one expected payload entry.
type Want struct {
	Path     string // absolute, clean, no trailing slash
	Kind     byte   // 'f' regular, 'd' declared dir, 'i' implied dir, 'l' symlink, 'g' ghost
	Type     string // nfpm content type of the entry
	Mode     fs.FileMode
	Owner    string
	Group    string
	MTime    time.Time
	Data     []byte
	Link     string
	FromTree bool // a directory found by walking a tree source (its mode is the on-disk mode)
	OnlyRPM  bool // exists only in rpm packages (ghost and the parent it alone implies)
}

type Scenario struct {
	Info  *nfpm.Info
	Wants []Want // sorted by path, implied directories included
	MTime time.Time
	Umask fs.FileMode
}

// PkgTime returns a symbolic package mtime with a 10-digit unix time (2001..2033), never zero.
func PkgTime(name string) time.Time {
	sec := zz.NondetI64(name)
	zz.Assume(sec >= 1000000000)
	zz.Assume(sec < 2000000000)
	return time.Unix(sec, 0).UTC()
}

var ConfigTypes = []string{files.TypeFile, files.TypeConfig, files.TypeConfigNoReplace, files.TypeConfigMissingOK}

// Options select which aspects are symbolic (the others take a typical
// concrete value): whole-package runs multiply paths for every rendered
// number, so each harness varies one family of inputs at a time.
type Options struct {
	SymModes    bool // on-disk mode, explicit mode, umask, dir mode: arbitrary
	SymOwners   bool // owner / group strings
	SymTimes    bool // package mtime, source mtime, explicit entry mtime
	SymPkgTime  bool // only the package mtime
	NoInfoFork  bool // entry 1 always has file_info (no symbolic choice)
	SymContent  bool // file bytes (and length)
	SymDst      bool // destination spelling
	SymType     bool // file / config / config|noreplace / config|missingok
	UmaskChoice bool // the umask is 022 or 077 (a restrictive umask must not reach what has a fixed mode)
	NoPkgTime   bool // the package mtime is not configured (zero): entries take their source's mtime
	SubSecond   bool // the on-disk mtime of source files has a fractional part (0, .5 s, .999999999 s)
	Second      int  // 0 none, 1 declared dir, 2 symlink, 3 second file, 4 rpm ghost, 5..8 rpm doc/licence/license/readme,
	// 9 tree, 10 directory source (glob), 11 on-disk symlink source; -1 symbolic choice of 1..3, -2 of 1..4, -3 of 4..8, -4 of 9..11
}

func u32(sym bool, name string, def uint32) uint32 {
	if sym {
		return zz.NondetU32(name)
	}
	return def
}

func tm(sym bool, name string, def int64) time.Time {
	if sym {
		return PkgTime(name)
	}
	return time.Unix(def, 0).UTC()
}

func name2(sym bool, name, def string) string {
	if !sym {
		return def
	}
	s := zz.NondetStringN(name, 1)
	zz.Assume(zz.AllIn(s, "a-c"))
	return def[:1] + s
}

// Payload builds: one regular (maybe config) file entry, optionally with
// file_info, and optionally a second entry of another kind.
func Payload(o Options) *Scenario {
	sc := &Scenario{}
	sc.MTime = tm(o.SymTimes || o.SymPkgTime, "pkg.mtime", 1700000000)
	if o.NoPkgTime {
		sc.MTime = time.Time{}
	}
	sc.Umask = fs.FileMode(u32(o.SymModes, "umask", 0o022))
	info := &nfpm.Info{Name: "pkg", Arch: "amd64", Platform: "linux", Version: "1.2.3", Description: "d", Maintainer: "m <m@x>", MTime: sc.MTime}
	if o.UmaskChoice {
		sc.Umask = []fs.FileMode{0o022, 0o077}[zz.NondetChoice("umask.choice", 2)]
	}
	info.Umask = sc.Umask
	info.RPM.BuildHost = "host"

	// ---- entry 1: a regular (maybe config) file
	content := []byte("AB")
	if o.SymContent {
		content = zz.NondetBytes("f1.content", zz.Bound("scen.content", 2, 6))
	}
	statMode := fs.FileMode(u32(o.SymModes, "f1.statmode", 0o644))
	zz.Assume(statMode&^ChmodBits == 0)
	statTime := tm(o.SymTimes, "f1.stattime", 1600000000)
	if o.SubSecond {
		// file systems keep nanoseconds; archive headers keep seconds
		statTime = statTime.Add(time.Duration([]int64{0, 500000000, 999999999}[zz.NondetChoice("f1.statnanos", 3)]))
	}
	src := models.AddFile("/src/f1", content, statMode, statTime)
	typ := files.TypeFile
	if o.SymType {
		typ = ConfigTypes[zz.NondetChoice("f1.type", len(ConfigTypes))]
	}
	d1, d2 := name2(o.SymDst, "f1.seg1", "uu"), name2(o.SymDst, "f1.seg2", "ff")
	dst := "/" + d1 + "/" + d2
	c1 := &files.Content{Source: src, Destination: dst, Type: typ}
	w1 := Want{Path: dst, Kind: 'f', Type: typ, Data: content, Owner: "root", Group: "root", MTime: sc.MTime}
	w1.Mode = statMode &^ sc.Umask
	if o.NoInfoFork || zz.NondetBool("f1.hasinfo") {
		m := fs.FileMode(u32(o.SymModes, "f1.mode", 0o4750))
		zz.Assume(m <= 0o7777)
		owner, group := "own", ""
		if o.SymOwners {
			owner = zz.NondetString("f1.owner", 2)
			group = zz.NondetString("f1.group", 2)
			zz.Assume(zz.AllIn(owner, "a-z"))
			zz.Assume(zz.AllIn(group, "a-z"))
		}
		c1.FileInfo = &files.ContentFileInfo{Owner: owner, Group: group, Mode: m}
		if m != 0 {
			w1.Mode = m
		}
		if owner != "" {
			w1.Owner = owner
		}
		if group != "" {
			w1.Group = group
		}
		if o.SymTimes && zz.NondetBool("f1.hasmtime") {
			emt := PkgTime("f1.mtime")
			c1.FileInfo.MTime = emt
			w1.MTime = emt
		}
	}
	info.Contents = files.Contents{c1}
	sc.Wants = append(sc.Wants, Want{Path: "/" + d1, Kind: 'i', Type: files.TypeImplicitDir, Mode: 0o755, Owner: "root", Group: "root", MTime: sc.MTime}, w1)

	// ---- entry 2 (always beneath /xx, which sorts after entry 1)
	second := o.Second
	if second == -1 {
		second = 1 + zz.NondetChoice("e2.kind", 3)
	} else if second == -2 {
		second = 1 + zz.NondetChoice("e2.kind", 4)
	} else if second == -3 {
		second = 4 + zz.NondetChoice("e2.kind", 5)
	} else if second == -4 {
		second = 9 + zz.NondetChoice("e2.kind", 3)
	}
	parent := Want{Path: "/xx", Kind: 'i', Type: files.TypeImplicitDir, Mode: 0o755, Owner: "root", Group: "root", MTime: sc.MTime}
	switch second {
	case 1: // declared directory with file_info
		m := fs.FileMode(u32(o.SymModes, "e2.mode", 0o2775))
		zz.Assume(m <= 0o7777)
		zz.Assume(m != 0)
		owner := "dd"
		if o.SymOwners {
			owner = zz.NondetStringN("e2.owner", 1)
			zz.Assume(zz.AllIn(owner, "a-z"))
		}
		info.Contents = append(info.Contents, &files.Content{Destination: spell(o.SymDst, "e2", "/xx/dir"), Type: files.TypeDir,
			FileInfo: &files.ContentFileInfo{Mode: m, Owner: owner}})
		sc.Wants = append(sc.Wants, parent,
			Want{Path: "/xx/dir", Kind: 'd', Type: files.TypeDir, Mode: m, Owner: owner, Group: "root", MTime: sc.MTime})
	case 2: // symlink with a literal (dangling) target
		target := "../t"
		if o.SymContent {
			// the target is a lexically clean path: PrepareForPackager documents that it
			// normalises source paths, so "//" or "a/./b" are not shipped literally
			target = "../" + zz.NondetStringRange("e2.target", 1, 3)
			zz.Assume(zz.AllIn(target[3:], "a-z"))
		}
		info.Contents = append(info.Contents, &files.Content{Source: target, Destination: spell(o.SymDst, "e2", "/xx/link"), Type: files.TypeSymlink})
		sc.Wants = append(sc.Wants, parent,
			Want{Path: "/xx/link", Kind: 'l', Type: files.TypeSymlink, Link: target, Owner: "root", Group: "root", MTime: sc.MTime})
	case 3: // second regular file without file_info, empty content allowed
		c2 := []byte{}
		if o.SymContent {
			c2 = zz.NondetBytes("f2.content", 1)
		}
		sm := fs.FileMode(u32(o.SymModes, "f2.statmode", 0o755))
		zz.Assume(sm&^fs.ModePerm == 0)
		src2 := models.AddFile("/src/f2", c2, sm, tm(o.SymTimes, "f2.stattime", 1500000000))
		info.Contents = append(info.Contents, &files.Content{Source: src2, Destination: "/xx/g"})
		sc.Wants = append(sc.Wants, parent,
			Want{Path: "/xx/g", Kind: 'f', Type: files.TypeFile, Data: c2, Mode: sm &^ sc.Umask, Owner: "root", Group: "root", MTime: sc.MTime})
	case 5, 6, 7, 8: // rpm-only documentation entries
		typ := []string{files.TypeRPMDoc, files.TypeRPMLicence, files.TypeRPMLicense, files.TypeRPMReadme}[second-5]
		body := []byte("D")
		src2 := models.AddFile("/src/doc", body, 0o644, tm(false, "", 1500000000))
		if zz.NondetBool("doc.source.is.a.symlink") {
			// LICENSE -> ../LICENSE in a sub-package: the entry is still the file's bytes with its flag
			src2 = models.AddSymlink("/src/doclnk", "doc", tm(false, "", 1500000000))
		}
		parent.OnlyRPM = true
		info.Contents = append(info.Contents, &files.Content{Source: src2, Destination: "/xx/doc", Type: typ})
		sc.Wants = append(sc.Wants, parent,
			Want{Path: "/xx/doc", Kind: 'f', Type: typ, Data: body, Mode: 0o644 &^ sc.Umask, Owner: "root", Group: "root", MTime: sc.MTime, OnlyRPM: true})
	case 9, 10: // a tree, or a directory source expanded by globbing: /src/t holds a and sub/b
		mtT := tm(false, "", 1500000000)
		models.AddDir("/src", 0o755, mtT)
		root := models.AddDir("/src/t", 0o755, mtT)
		models.AddFile("/src/t/a", []byte("A"), 0o644, mtT)
		models.AddDir("/src/t/sub", 0o750, mtT)
		models.AddFile("/src/t/sub/b", []byte("B"), 0o600, mtT)
		if second == 9 {
			info.Contents = append(info.Contents, &files.Content{Source: root, Destination: "/xx/t", Type: files.TypeTree})
			sc.Wants = append(sc.Wants, parent,
				Want{Path: "/xx/t", Kind: 'd', Type: files.TypeDir, Mode: 0o755 &^ sc.Umask, Owner: "root", Group: "root", MTime: mtT, FromTree: true},
				Want{Path: "/xx/t/a", Kind: 'f', Type: files.TypeFile, Data: []byte("A"), Mode: 0o644 &^ sc.Umask, Owner: "root", Group: "root", MTime: sc.MTime},
				Want{Path: "/xx/t/sub", Kind: 'd', Type: files.TypeDir, Mode: 0o750 &^ sc.Umask, Owner: "root", Group: "root", MTime: mtT, FromTree: true},
				Want{Path: "/xx/t/sub/b", Kind: 'f', Type: files.TypeFile, Data: []byte("B"), Mode: 0o600 &^ sc.Umask, Owner: "root", Group: "root", MTime: sc.MTime})
		} else {
			info.Contents = append(info.Contents, &files.Content{Source: root, Destination: "/xx/t"})
			sc.Wants = append(sc.Wants, parent,
				Want{Path: "/xx/t", Kind: 'i', Type: files.TypeImplicitDir, Mode: 0o755, Owner: "root", Group: "root", MTime: sc.MTime},
				Want{Path: "/xx/t/a", Kind: 'f', Type: files.TypeFile, Data: []byte("A"), Mode: 0o644 &^ sc.Umask, Owner: "root", Group: "root", MTime: sc.MTime},
				Want{Path: "/xx/t/sub", Kind: 'i', Type: files.TypeImplicitDir, Mode: 0o755, Owner: "root", Group: "root", MTime: sc.MTime},
				Want{Path: "/xx/t/sub/b", Kind: 'f', Type: files.TypeFile, Data: []byte("B"), Mode: 0o600 &^ sc.Umask, Owner: "root", Group: "root", MTime: sc.MTime})
		}
	case 11: // a source that is a symlink on disk is shipped as a symlink
		mtT := tm(false, "", 1500000000)
		models.AddFile("/src/real", []byte("R"), 0o644, mtT)
		// the link text on disk is shipped as it is, clean or not ("./real" is the usual soname style)
		ltext := []string{"real", "./real"}[zz.NondetChoice("e2.linktext", 2)]
		l := models.AddSymlink("/src/lnk", ltext, mtT)
		info.Contents = append(info.Contents, &files.Content{Source: l, Destination: "/xx/lnk"})
		sc.Wants = append(sc.Wants, parent,
			Want{Path: "/xx/lnk", Kind: 'l', Type: files.TypeSymlink, Link: ltext, Owner: "root", Group: "root", MTime: sc.MTime})
	case 4: // rpm ghost
		parent.OnlyRPM = true
		info.Contents = append(info.Contents, &files.Content{Destination: spell(o.SymDst, "e2", "/xx/ghost"), Type: files.TypeRPMGhost})
		sc.Wants = append(sc.Wants, parent,
			Want{Path: "/xx/ghost", Kind: 'g', Type: files.TypeRPMGhost, Mode: 0o644, Owner: "root", Group: "root", MTime: sc.MTime, OnlyRPM: true})
	}
	sc.Info = info
	return sc
}

// spell returns one of the spellings of a clean absolute destination that
// nfpm normalises: as is, relative, through '..', with a duplicate slash, with '.'.
func spell(sym bool, name, canon string) string {
	if !sym {
		return canon
	}
	switch zz.NondetChoice(name+".spelling", 5) {
	case 1:
		return canon[1:]
	case 2:
		return "/zz/.." + canon
	case 3:
		return "/" + canon
	case 4:
		return "/." + canon
	}
	return canon
}

// UnixMode is the permission word a package stores for a Go file mode: the nine
// permission bits plus setuid/setgid/sticky in their Unix positions. A mode
// configured explicitly (file_info.mode) is a plain number and maps to itself.
func UnixMode(m fs.FileMode) int64 {
	u := int64(m & 0o7777)
	if m&fs.ModeSetuid != 0 {
		u |= 0o4000
	}
	if m&fs.ModeSetgid != 0 {
		u |= 0o2000
	}
	if m&fs.ModeSticky != 0 {
		u |= 0o1000
	}
	return u
}

// DiskSpecial reports whether a mode carries setuid/setgid/sticky in Go's
// fs.FileMode representation, i.e. it was taken from a source file on disk.
func DiskSpecial(m fs.FileMode) bool {
	return m&(fs.ModeSetuid|fs.ModeSetgid|fs.ModeSticky) != 0
}

// AnyDiskSpecial: some wanted entry has such a mode.
func (sc *Scenario) AnyDiskSpecial() bool {
	r := false
	for _, w := range sc.Wants {
		if DiskSpecial(w.Mode) {
			r = true
		}
	}
	return r
}

// ForFormat returns the wanted entries a format ships: rpm has no implied
// directories; ghosts exist only in rpm.
func (sc *Scenario) ForFormat(format string) []Want {
	var out []Want
	for _, w := range sc.Wants {
		if w.Kind == 'i' && format == "rpm" {
			continue
		}
		if w.OnlyRPM && format != "rpm" {
			continue
		}
		out = append(out, w)
	}
	return out
}

// Meta is a configuration whose metadata strings are symbolic (lower-case
// letters, fixed short lengths so that no path forks on a length): every
// relation list has one distinct item, the list chosen by `extra` has two.
type Meta struct {
	Info                                                           *nfpm.Info
	Name, Maintainer, Homepage, License, Vendor, Section, Priority string
	Desc                                                           string
	Replaces, Provides, Depends, Recommends, Suggests, Conflicts   []string
	Breaks, Predepends                                             []string
}

func word(name string, n int) string {
	s := zz.NondetStringN(name, n)
	zz.Assume(zz.AllIn(s, "a-z"))
	return s
}

func list(name string, two bool) []string {
	l := []string{word(name+".0", 2)}
	if two {
		l = append(l, word(name+".1", 2))
		zz.Assume(l[0] != l[1]) // rpm drops exact duplicates within a relation
	}
	return l
}

func NewMeta() *Meta {
	m := &Meta{}
	extra := zz.NondetChoice("meta.extra", 9) // 8 = no list has a second item
	m.Name, m.Maintainer, m.Homepage = "n"+word("name", 2), word("maint", 2), word("home", 2)
	m.License, m.Vendor, m.Section, m.Priority = word("lic", 2), word("vendor", 2), word("section", 2), word("prio", 2)
	m.Desc = word("desc", 3)
	m.Replaces, m.Provides, m.Depends = list("replaces", extra == 0), list("provides", extra == 1), list("depends", extra == 2)
	m.Recommends, m.Suggests, m.Conflicts = list("recommends", extra == 3), list("suggests", extra == 4), list("conflicts", extra == 5)
	m.Breaks, m.Predepends = list("breaks", extra == 6), list("predepends", extra == 7)
	info := &nfpm.Info{Name: m.Name, Arch: "amd64", Platform: "linux", Version: "1.2.3", Release: "2", Description: m.Desc,
		Maintainer: m.Maintainer, Homepage: m.Homepage, License: m.License, Vendor: m.Vendor, Section: m.Section, Priority: m.Priority,
		MTime: time.Unix(1700000000, 0).UTC()}
	info.Umask = 0o022
	info.RPM.BuildHost = "host"
	cp := func(l []string) []string { return append([]string{}, l...) }
	info.Replaces, info.Provides, info.Depends = cp(m.Replaces), cp(m.Provides), cp(m.Depends)
	info.Recommends, info.Suggests, info.Conflicts = cp(m.Recommends), cp(m.Suggests), cp(m.Conflicts)
	info.Deb.Breaks, info.Deb.Predepends, info.IPK.Predepends = cp(m.Breaks), cp(m.Predepends), cp(m.Predepends)
	m.Info = info
	return m
}

// Joined renders a relation list the deb822 way.
func Joined(l []string) string {
	s := ""
	for i, x := range l {
		if i > 0 {
			s += ", "
		}
		s += x
	}
	return s
}
