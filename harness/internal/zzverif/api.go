//go:build verif

// Package zzverif is the harness API. Under the symbolic executor (gosym)
// every function here is intercepted by name and its body is never run. In a
// native build (counterexample replay, witness validation) the bodies below
// read the concrete inputs of one replay record.
package zzverif

import (
	"encoding/binary"
	"encoding/json"
	"fmt"
	"os"
	"path/filepath"
	"reflect"
	"sort"
	"strconv"
	"strings"
	"unsafe"
)

type inputRec struct {
	Kind  string `json:"kind"`
	Bytes []int  `json:"bytes,omitempty"`
	Val   string `json:"val,omitempty"`
}

type Record struct {
	Harness string              `json:"harness"`
	Inputs  map[string]inputRec `json:"inputs"`
	Tier    string              `json:"tier"`
}

type assumeFailed struct{}

var (
	cur     *Record
	counts  map[string]int
	reached []string
	asserts []string
	observe []string
	missing []string
)

func uniq(name string) string {
	k := counts[name]
	counts[name] = k + 1
	if k == 0 {
		return name
	}
	return fmt.Sprintf("%s#%d", name, k)
}

func lookup(name string) (inputRec, bool) {
	n := uniq(name)
	if cur == nil {
		panic("zzverif: Nondet* called outside a replay")
	}
	r, ok := cur.Inputs[n]
	if !ok {
		missing = append(missing, n)
	}
	return r, ok
}

func num(name string) uint64 {
	r, ok := lookup(name)
	if !ok {
		return 0
	}
	v, _ := strconv.ParseUint(r.Val, 10, 64)
	return v
}

func NondetBool(name string) bool  { return num(name) != 0 }
func NondetByte(name string) byte  { return byte(num(name)) }
func NondetU32(name string) uint32 { return uint32(num(name)) }
func NondetI64(name string) int64  { return int64(num(name)) }
func NondetU64(name string) uint64 { return num(name) }
func NondetInt(name string) int    { return int(int64(num(name))) }

func str(name string) string {
	r, ok := lookup(name)
	if !ok {
		return ""
	}
	b := make([]byte, len(r.Bytes))
	for i, x := range r.Bytes {
		b[i] = byte(x)
	}
	return string(b)
}

// NondetString returns an arbitrary string of length 0..maxLen (the executor forks over the length).
func NondetString(name string, maxLen int) string { return str(name) }

// NondetStringN returns an arbitrary string of exactly n bytes.
func NondetStringN(name string, n int) string { return str(name) }

// NondetStringRange returns an arbitrary string of length lo..hi.
func NondetStringRange(name string, lo, hi int) string { return str(name) }

func NondetBytes(name string, maxLen int) []byte { return []byte(str(name)) }

// NondetChoice returns an arbitrary value in 0..n-1 (the executor forks).
func NondetChoice(name string, n int) int { return int(num(name)) }

// Bound returns the tier-dependent bound and records it in the evidence.
func Bound(key string, quick, thorough int) int {
	if cur != nil && cur.Tier == "thorough" {
		return thorough
	}
	return quick
}

func Thorough() bool { return cur != nil && cur.Tier == "thorough" }

// Symbolic reports whether the harness runs under the symbolic executor.
func Symbolic() bool { return false }

func Assume(cond bool) {
	if !cond {
		panic(assumeFailed{})
	}
}

func Assert(cond bool, id string) {
	asserts = append(asserts, fmt.Sprintf("%s=%v", id, cond))
}

func Reach(tag string) { reached = append(reached, tag) }

// Observe records a value for translator validation (symbolic result vs native result).
func Observe(name string, val any) {
	observe = append(observe, name+"="+canon(val))
}

func canon(val any) string {
	switch x := val.(type) {
	case string:
		return strconv.Quote(x)
	case []byte:
		return strconv.Quote(string(x))
	case bool:
		return strconv.FormatBool(x)
	case int:
		return strconv.FormatInt(int64(x), 10)
	case int64:
		return strconv.FormatInt(x, 10)
	case int32:
		return strconv.FormatInt(int64(x), 10)
	case uint32:
		return strconv.FormatUint(uint64(x), 10)
	case uint64:
		return strconv.FormatUint(x, 10)
	case uint8:
		return strconv.FormatUint(uint64(x), 10)
	case []string:
		q := make([]string, len(x))
		for i, s := range x {
			q[i] = strconv.Quote(s)
		}
		return "[" + strings.Join(q, " ") + "]"
	case error:
		if x == nil {
			return "nil"
		}
		return "error"
	case nil:
		return "nil"
	}
	return fmt.Sprintf("?%T", val)
}

// AllIn reports whether every byte of s is in the class spec (regex-class
// syntax without brackets: "0-9a-zA-Z._", a trailing '-' is literal). Under
// the executor it is ONE symbolic Boolean (no forking).
func AllIn(s string, spec string) bool {
	for i := 0; i < len(s); i++ {
		if !ByteIn(s[i], spec) {
			return false
		}
	}
	return true
}

// ByteIn is AllIn for one byte.
func ByteIn(c byte, spec string) bool {
	for i := 0; i < len(spec); i++ {
		if i+2 < len(spec) && spec[i+1] == '-' {
			if c >= spec[i] && c <= spec[i+2] {
				return true
			}
			i += 2
			continue
		}
		if c == spec[i] {
			return true
		}
	}
	return false
}

// Field reads a (possibly unexported) struct field through a pointer.
func Field(ptr any, name string) any {
	f := reflect.ValueOf(ptr).Elem().FieldByName(name)
	return reflect.NewAt(f.Type(), unsafe.Pointer(f.UnsafeAddr())).Elem().Interface()
}

// Put64 / Get64 store and load a big-endian 64-bit integer (one term, no shifting, under the executor).
func Put64(b []byte, off int, x int64) { binary.BigEndian.PutUint64(b[off:], uint64(x)) }
func Get64(b []byte, off int) int64    { return int64(binary.BigEndian.Uint64(b[off:])) }

// Snapshot remembers the state of everything reachable from root under a name
// (symbolically: the reachable memory cells are coloured and every later write
// to them is logged; natively: a canonical deep rendering is kept).
func Snapshot(root any, name string) {
	snapRoots[name] = root
	snaps[name] = render(reflect.ValueOf(root), map[uintptr]bool{}, 0)
}

// Changed reports whether anything reachable from the snapshot root may now
// hold a different value (symbolically one Boolean term: the disjunction over
// all logged writes of old != new).
func Changed(name string) bool {
	return snaps[name] != render(reflect.ValueOf(snapRoots[name]), map[uintptr]bool{}, 0)
}

// Written reports whether any memory reachable from the snapshot root was
// written at all, even with the value it already held (a race needs only the
// access). Natively this cannot be observed; C12 replays run under -race instead.
func Written(name string) bool { return false }

// ChangedWhere names the writers found by the last Changed (diagnostics, symbolic only).
func ChangedWhere() string { return "" }

// WatchGlobals starts logging writes to package-level variables of the module; GlobalWrites counts them.
func WatchGlobals() {}

// CallUnmarshalers calls, under the executor, the UnmarshalYAML method of every
// module type reachable from the static type of target (on a zero value, with a
// zero node) and returns how many there are. Natively 0: the real decoder does it.
func CallUnmarshalers(target any) int { return 0 }

// PooledAccesses counts, under the executor, reads and writes of memory that
// had been handed back to a sync.Pool (use after Put). 0 natively.
func PooledAccesses() int { return 0 }

// Touch tells the executor that a model method writes the object ptr points
// to (a stateful writer, hasher, compressor): sharing such an object between
// two packagings is then seen as a write to shared memory. No-op natively,
// where the real object is really written (and the race detector sees it).
func Touch(ptr any)     {}
func GlobalWrites() int { return 0 }

var (
	snaps     = map[string]string{}
	snapRoots = map[string]any{}
)

func render(v reflect.Value, seen map[uintptr]bool, depth int) string {
	if !v.IsValid() || depth > 12 {
		return "<>"
	}
	switch v.Kind() {
	case reflect.Ptr:
		if v.IsNil() {
			return "nil"
		}
		if seen[v.Pointer()] {
			return "<cycle>"
		}
		seen[v.Pointer()] = true
		defer delete(seen, v.Pointer())
		return "&" + render(v.Elem(), seen, depth+1)
	case reflect.Interface:
		if v.IsNil() {
			return "nil"
		}
		return render(v.Elem(), seen, depth+1)
	case reflect.Struct:
		s := "{"
		for i := 0; i < v.NumField(); i++ {
			f := v.Field(i)
			if v.Type().Field(i).PkgPath != "" && v.Type().String() != "time.Time" {
				continue
			}
			if f.Kind() == reflect.Func {
				continue
			}
			if v.Type().String() == "time.Time" {
				if m := v.MethodByName("UnixNano"); m.IsValid() && v.CanInterface() {
					return fmt.Sprint(m.Call(nil)[0].Int())
				}
				return "time"
			}
			s += v.Type().Field(i).Name + ":" + render(f, seen, depth+1) + ","
		}
		return s + "}"
	case reflect.Slice, reflect.Array:
		if v.Kind() == reflect.Slice && v.IsNil() {
			return "[]nil"
		}
		s := "["
		// the spare capacity is reachable too
		n := v.Len()
		full := v
		if v.Kind() == reflect.Slice && v.Cap() > n {
			full = v.Slice(0, v.Cap())
		}
		for i := 0; i < full.Len(); i++ {
			if i == n {
				s += "|"
			}
			s += render(full.Index(i), seen, depth+1) + ","
		}
		return s + "]"
	case reflect.Map:
		if v.IsNil() {
			return "map nil"
		}
		var ks []string
		for _, k := range v.MapKeys() {
			ks = append(ks, render(k, seen, depth+1)+"="+render(v.MapIndex(k), seen, depth+1))
		}
		sort.Strings(ks)
		return "map[" + strings.Join(ks, ",") + "]"
	case reflect.String:
		return strconv.Quote(v.String())
	case reflect.Func, reflect.Chan, reflect.UnsafePointer:
		return "fn"
	}
	if v.CanInterface() {
		return fmt.Sprint(v.Interface())
	}
	switch v.Kind() {
	case reflect.Int, reflect.Int8, reflect.Int16, reflect.Int32, reflect.Int64:
		return strconv.FormatInt(v.Int(), 10)
	case reflect.Uint, reflect.Uint8, reflect.Uint16, reflect.Uint32, reflect.Uint64:
		return strconv.FormatUint(v.Uint(), 10)
	case reflect.Bool:
		return strconv.FormatBool(v.Bool())
	}
	return "?"
}

// Store / Load pass values between a harness and the models without import cycles.
var kv = map[string]any{}

func Store(key string, val any) { kv[key] = val }
func Load(key string) any       { return kv[key] }

func PermuteMaps(on bool) {}

// DependsOn reports whether some byte of b is (syntactically) a function of a
// symbolic variable whose name starts with prefix ("$now" = the clock).
// Natively it cannot be observed and is false.
func DependsOn(b []byte, prefix string) bool { return false }

// Unsupported ends the current symbolic path as "not encodable" (never a pass).
func Unsupported(msg string) { panic("zzverif: unsupported natively: " + msg) }

var replayEnd []func()

// AtReplayEnd registers clean-up for the current native replay record.
func AtReplayEnd(f func()) { replayEnd = append(replayEnd, f) }

// Fresh returns an unconstrained byte (symbolic) / 0 (native).
func Fresh(prefix string) byte { return 0 }

// FreshBytes returns n unconstrained bytes (used by models for opaque outputs).
func FreshBytes(prefix string, n int) []byte { return make([]byte, n) }

// Hash is the uninterpreted-function model of a cryptographic digest.
func Hash(kind string, data []byte, n int) []byte { return make([]byte, n) }

func IsConcrete(s string) bool { return true }

func SameObject(a, b any) bool { return a == b }

// RunReplays executes every record in $VERIF_REPLAY_DIR against the natively
// compiled harnesses and prints one result line per record.
func RunReplays(harnesses map[string]func()) {
	dir := os.Getenv("VERIF_REPLAY_DIR")
	files, _ := filepath.Glob(filepath.Join(dir, "*.json"))
	sort.Strings(files)
	for _, f := range files {
		b, err := os.ReadFile(f)
		if err != nil {
			continue
		}
		var rec Record
		if err := json.Unmarshal(b, &rec); err != nil {
			fmt.Printf("REPLAY %s error=badjson\n", filepath.Base(f))
			continue
		}
		h, ok := harnesses[rec.Harness]
		if !ok {
			continue
		}
		cur = &rec
		counts = map[string]int{}
		reached, asserts, observe, missing = nil, nil, nil, nil
		status := "ok"
		func() {
			defer func() {
				if r := recover(); r != nil {
					if _, ok := r.(assumeFailed); ok {
						status = "assume"
					} else {
						status = "panic:" + strings.ReplaceAll(fmt.Sprint(r), " ", "_")
					}
				}
			}()
			h()
		}()
		var unused []string
		for name := range rec.Inputs {
			base := name
			k := 0
			if i := strings.LastIndex(name, "#"); i > 0 {
				if n, err := strconv.Atoi(name[i+1:]); err == nil {
					base, k = name[:i], n
				}
			}
			if counts[base] <= k {
				unused = append(unused, name)
			}
		}
		sort.Strings(unused)
		out := map[string]any{"file": filepath.Base(f), "status": status, "reached": reached, "asserts": asserts, "observe": observe, "missing": missing, "unused": unused}
		j, _ := json.Marshal(out)
		fmt.Printf("REPLAY %s\n", j)
		cur = nil
		for _, f := range replayEnd {
			f()
		}
		replayEnd = nil
	}
}
