//go:build verif

package models

import (
	"bytes"
	"fmt"
	"io"
	"sort"

	"github.com/google/rpmpack"
	rpmutils "github.com/sassoftware/go-rpmutils"

	zz "github.com/goreleaser/nfpm/v2/internal/zzverif"
)

// Model of the parts of google/rpmpack that cannot be executed symbolically.
// Real code that IS executed: NewRPM (incl. setupCompressor), AddFile, the
// scriptlet setters, SetPGPSigner, AddCustomTag, Relations.addIfMissing.
//   - NewRelation (regexp): a relation is kept as its source string in Name.
//   - (*RPM).Write: nothing is serialised. The model performs the same sequence
//     of environment interactions as the real method: it calls the registered
//     signer twice (header, then header+payload) and returns its error wrapped
//     as the real code does, then issues the five writes lead / signature
//     header / padding / header / payload, returning on the first failure. The
//     state handed to rpmpack is kept for DecodeRPM.
// NOT modelled: lead, header and cpio bytes, digests, size tags.

//verif:replace github.com/google/rpmpack.NewRelation
func RpmNewRelation(related string) (*rpmpack.Relation, error) {
	return &rpmpack.Relation{Name: related, Sense: rpmpack.SenseAny}, nil
}

var LastRPM *rpmpack.RPM

//verif:replace (*github.com/google/rpmpack.RPM).Write
func RpmWrite(r *rpmpack.RPM, w io.Writer) error {
	LastRPM = r
	hdr := zz.FreshBytes("rpmhdr", 8)
	payload := zz.FreshBytes("rpmpayload", 8)
	if signer := zz.Field(r, "pgpSigner").(func([]byte) ([]byte, error)); signer != nil {
		if _, err := signer(hdr); err != nil {
			return fmt.Errorf("failed to create signatures: %w", fmt.Errorf("call to signer failed: %w", err))
		}
		if _, err := signer(append(append([]byte{}, hdr...), payload...)); err != nil {
			return fmt.Errorf("failed to create signatures: %w", fmt.Errorf("call to signer failed: %w", err))
		}
	}
	if _, err := w.Write(make([]byte, 96)); err != nil {
		return fmt.Errorf("failed to write lead: %w", err)
	}
	if _, err := w.Write(zz.FreshBytes("rpmsig", 8)); err != nil {
		return fmt.Errorf("failed to write signature bytes: %w", err)
	}
	if _, err := w.Write(make([]byte, 0)); err != nil {
		return fmt.Errorf("failed to write signature padding: %w", err)
	}
	if _, err := w.Write(hdr); err != nil {
		return fmt.Errorf("failed to write header body: %w", err)
	}
	if _, err := w.Write(payload); err != nil {
		return fmt.Errorf("failed to write payload: %w", err)
	}
	return nil
}

type RpmFile struct {
	Name  string
	Mode  uint16
	MTime uint32
	Owner string
	Group string
	Flags uint32
	Body  []byte
}

type RpmView struct {
	Name, Version, Release, Arch, OS, Summary, Description, License, URL, Vendor, Packager, Group, BuildHost, Compressor string
	Epoch                                                                                                                uint32
	HasEpoch                                                                                                             bool
	BuildTime                                                                                                            uint32
	Files                                                                                                                []RpmFile
	Prein, Postin, Preun, Postun, Pretrans, Posttrans, Verify                                                            string
	Provides, Requires, Recommends, Suggests, Conflicts, Obsoletes, Prefixes                                             []string
}

// DecodeRPM returns what the package says about itself: natively by reading
// the rpm with sassoftware/go-rpmutils, symbolically from the state handed to rpmpack.
func DecodeRPM(out []byte) (RpmView, bool) {
	if !zz.Symbolic() {
		return nativeDecodeRPM(out)
	}
	var vw RpmView
	r := LastRPM
	if r == nil {
		return vw, false
	}
	m := r.RPMMetaData
	vw.Name, vw.Version, vw.Release, vw.Arch, vw.OS = m.Name, m.Version, m.Release, m.Arch, m.OS
	vw.Summary, vw.Description, vw.License, vw.URL, vw.Vendor = m.Summary, m.Description, m.Licence, m.URL, m.Vendor
	vw.Packager, vw.Group, vw.BuildHost, vw.Compressor = m.Packager, m.Group, m.BuildHost, m.Compressor
	vw.Epoch, vw.HasEpoch = m.Epoch, m.Epoch != rpmpack.NoEpoch
	vw.BuildTime = uint32(m.BuildTime.Unix())
	vw.Prefixes = m.Prefixes
	rel := func(rs rpmpack.Relations) []string {
		var out []string
		for _, x := range rs {
			out = append(out, x.Name)
		}
		return out
	}
	vw.Provides, vw.Requires, vw.Recommends = rel(m.Provides), rel(m.Requires), rel(m.Recommends)
	vw.Suggests, vw.Conflicts, vw.Obsoletes = rel(m.Suggests), rel(m.Conflicts), rel(m.Obsoletes)
	files := zz.Field(r, "files").(map[string]rpmpack.RPMFile)
	names := make([]string, 0, len(files))
	for n := range files {
		names = append(names, n)
	}
	sort.Strings(names)
	for _, n := range names {
		f := files[n]
		vw.Files = append(vw.Files, RpmFile{Name: f.Name, Mode: uint16(f.Mode), MTime: f.MTime, Owner: f.Owner, Group: f.Group, Flags: uint32(f.Type), Body: f.Body})
	}
	vw.Prein, _ = zz.Field(r, "prein").(string)
	vw.Postin, _ = zz.Field(r, "postin").(string)
	vw.Preun, _ = zz.Field(r, "preun").(string)
	vw.Postun, _ = zz.Field(r, "postun").(string)
	vw.Pretrans, _ = zz.Field(r, "pretrans").(string)
	vw.Posttrans, _ = zz.Field(r, "posttrans").(string)
	vw.Verify, _ = zz.Field(r, "verifyscript").(string)
	return vw, true
}

func nativeDecodeRPM(out []byte) (RpmView, bool) {
	var vw RpmView
	rpm, err := rpmutils.ReadRpm(bytes.NewReader(out))
	if err != nil {
		return vw, false
	}
	h := rpm.Header
	str := func(tag int) string { s, _ := h.GetString(tag); return s }
	strs := func(tag int) []string { s, _ := h.GetStrings(tag); return s }
	vw.Name, vw.Version, vw.Release, vw.Arch, vw.OS = str(rpmutils.NAME), str(rpmutils.VERSION), str(rpmutils.RELEASE), str(rpmutils.ARCH), str(rpmutils.OS)
	vw.Summary, vw.Description, vw.License, vw.URL, vw.Vendor = str(rpmutils.SUMMARY), str(rpmutils.DESCRIPTION), str(rpmutils.LICENSE), str(rpmutils.URL), str(rpmutils.VENDOR)
	vw.Packager, vw.Group, vw.BuildHost, vw.Compressor = str(rpmutils.PACKAGER), str(rpmutils.GROUP), str(rpmutils.BUILDHOST), str(rpmutils.PAYLOADCOMPRESSOR)
	if e, err := h.GetUint32s(rpmutils.EPOCH); err == nil && len(e) == 1 {
		vw.Epoch, vw.HasEpoch = e[0], true
	} else {
		vw.Epoch = 0xffffffff
	}
	if bt, err := h.GetUint32s(rpmutils.BUILDTIME); err == nil && len(bt) == 1 {
		vw.BuildTime = bt[0]
	}
	vw.Prefixes = strs(1098)
	vw.Provides, vw.Requires, vw.Recommends = strs(rpmutils.PROVIDENAME), strs(rpmutils.REQUIRENAME), strs(5046)
	vw.Suggests, vw.Conflicts, vw.Obsoletes = strs(5049), strs(rpmutils.CONFLICTNAME), strs(rpmutils.OBSOLETENAME)
	vw.Prein, vw.Postin, vw.Preun, vw.Postun = str(rpmutils.PREIN), str(rpmutils.POSTIN), str(rpmutils.PREUN), str(rpmutils.POSTUN)
	vw.Pretrans, vw.Posttrans, vw.Verify = str(1151), str(1152), str(rpmutils.VERIFYSCRIPT)
	fis, err := h.GetFiles()
	if err != nil {
		return vw, true // meta package without files
	}
	bodies := map[string][]byte{}
	if pr, err := rpm.PayloadReaderExtended(); err == nil {
		for {
			fi, err := pr.Next()
			if err != nil {
				break
			}
			if !pr.IsLink() {
				b, _ := io.ReadAll(pr)
				bodies[fi.Name()] = b
			}
		}
	}
	for _, fi := range fis {
		f := RpmFile{Name: fi.Name(), Mode: uint16(fi.Mode()), MTime: uint32(fi.Mtime()), Owner: fi.UserName(), Group: fi.GroupName(), Flags: uint32(fi.Flags())}
		if fi.Mode()&0o170000 == 0o120000 {
			f.Body = []byte(fi.Linkname())
		} else {
			f.Body = bodies[fi.Name()]
		}
		vw.Files = append(vw.Files, f)
	}
	sort.Slice(vw.Files, func(i, j int) bool { return vw.Files[i].Name < vw.Files[j].Name })
	return vw, true
}
