//go:build verif

package models

import (
	"compress/gzip"
	"fmt"
	zz "github.com/goreleaser/nfpm/v2/internal/zzverif"
	"io"

	"github.com/klauspost/compress/zstd"
	"github.com/klauspost/pgzip"
	"github.com/ulikunitz/xz"
	"github.com/ulikunitz/xz/lzma"
)

// Model of the stream compressors (compress/gzip, klauspost/pgzip,
// klauspost/compress/zstd, ulikunitz/xz and lzma). Contract: the output is an
// injective function of (kind, input) — here a 7-byte header carrying kind and
// input length, the input itself, and an 8-byte trailer; nothing reaches the
// underlying writer before Flush/Close (true of the real writers for inputs
// below their block size); errors of the underlying writer are returned and
// stick; Close is idempotent. NOT modelled: real compressed bytes, levels,
// block parallelism.

const (
	KindGzip = 1
	KindXz   = 2
	KindZstd = 3
	KindLzma = 4
)

type CompState struct {
	key    any // the real writer object this state belongs to
	W      io.Writer
	Kind   byte
	buf    []byte
	Closed bool
	err    error
	wrote  bool
	block  int64 // compression block size (pgzip.SetConcurrency): the real output depends on it
}

var (
	compStates = map[any]*CompState{}
	CompOrder  []*CompState
)

func newComp(key any, w io.Writer, kind byte) {
	st := &CompState{key: key, W: w, Kind: kind}
	zz.Touch(key)
	compStates[key] = st
	CompOrder = append(CompOrder, st)
}

func (st *CompState) write(p []byte) (int, error) {
	zz.Touch(st.key)
	if st.err != nil {
		return 0, st.err
	}
	if st.Closed {
		return 0, fmt.Errorf("compress: write after close")
	}
	st.buf = append(st.buf, p...)
	return len(p), nil
}

func (st *CompState) emit(p []byte) error {
	n, err := st.W.Write(p)
	if err == nil && n != len(p) {
		err = io.ErrShortWrite
	}
	if err != nil {
		st.err = err
	}
	return err
}

func (st *CompState) close() error {
	zz.Touch(st.key)
	if st.err != nil {
		return st.err
	}
	if st.Closed {
		return nil
	}
	st.Closed = true
	n := len(st.buf)
	out := make([]byte, 0, n+15)
	out = append(out, 0x1f, 0x8b, st.Kind, byte(n>>24), byte(n>>16), byte(n>>8), byte(n))
	out = append(out, st.buf...)
	// trailer: the block size a parallel compressor was configured with (block
	// boundaries shape the real stream once the input exceeds one block)
	tr := make([]byte, 8)
	zz.Put64(tr, 0, st.block)
	out = append(out, tr...)
	return st.emit(out)
}

//verif:replace compress/gzip.NewWriter
func GzipNewWriter(w io.Writer) *gzip.Writer {
	z := new(gzip.Writer)
	newComp(z, w, KindGzip)
	return z
}

//verif:replace compress/gzip.NewWriterLevel
func GzipNewWriterLevel(w io.Writer, level int) (*gzip.Writer, error) {
	if level < gzip.HuffmanOnly || level > gzip.BestCompression {
		return nil, fmt.Errorf("gzip: invalid compression level: %d", level)
	}
	return GzipNewWriter(w), nil
}

//verif:replace (*compress/gzip.Writer).Write
func GzipWrite(z *gzip.Writer, p []byte) (int, error) { return compStates[z].write(p) }

//verif:replace (*compress/gzip.Writer).Close
func GzipClose(z *gzip.Writer) error { return compStates[z].close() }

//verif:replace (*compress/gzip.Writer).Flush
func GzipFlush(z *gzip.Writer) error { return compStates[z].err }

//verif:replace github.com/klauspost/pgzip.NewWriter
func PgzipNewWriter(w io.Writer) *pgzip.Writer {
	z := new(pgzip.Writer)
	newComp(z, w, KindGzip)
	return z
}

//verif:replace (*github.com/klauspost/pgzip.Writer).SetConcurrency
func PgzipSetConcurrency(z *pgzip.Writer, blockSize, blocks int) error {
	if blockSize <= 0 || blocks <= 0 {
		return fmt.Errorf("gzip: invalid concurrency")
	}
	compStates[z].block = int64(blockSize)
	return nil
}

//verif:replace (*github.com/klauspost/pgzip.Writer).Write
func PgzipWrite(z *pgzip.Writer, p []byte) (int, error) { return compStates[z].write(p) }

//verif:replace (*github.com/klauspost/pgzip.Writer).Close
func PgzipClose(z *pgzip.Writer) error { return compStates[z].close() }

//verif:replace github.com/ulikunitz/xz.NewWriter
func XzNewWriter(w io.Writer) (*xz.Writer, error) {
	z := new(xz.Writer)
	newComp(z, w, KindXz)
	return z, nil
}

//verif:replace (*github.com/ulikunitz/xz.Writer).Write
func XzWrite(z *xz.Writer, p []byte) (int, error) { return compStates[z].write(p) }

//verif:replace (*github.com/ulikunitz/xz.Writer).Close
func XzClose(z *xz.Writer) error { return compStates[z].close() }

//verif:replace github.com/ulikunitz/xz/lzma.NewWriter
func LzmaNewWriter(w io.Writer) (*lzma.Writer, error) {
	z := new(lzma.Writer)
	newComp(z, w, KindLzma)
	return z, nil
}

//verif:replace (*github.com/ulikunitz/xz/lzma.Writer).Write
func LzmaWrite(z *lzma.Writer, p []byte) (int, error) { return compStates[z].write(p) }

//verif:replace (*github.com/ulikunitz/xz/lzma.Writer).Close
func LzmaClose(z *lzma.Writer) error { return compStates[z].close() }

//verif:replace github.com/klauspost/compress/zstd.NewWriter
func ZstdNewWriter(w io.Writer, opts ...zstd.EOption) (*zstd.Encoder, error) {
	z := new(zstd.Encoder)
	newComp(z, w, KindZstd)
	return z, nil
}

// Reset re-targets an existing writer object: a fresh stream state under the same key.
//
//verif:replace (*github.com/klauspost/compress/zstd.Encoder).Reset
func ZstdReset(z *zstd.Encoder, w io.Writer) { newComp(z, w, KindZstd) }

//verif:replace (*compress/gzip.Writer).Reset
func GzipReset(z *gzip.Writer, w io.Writer) { newComp(z, w, KindGzip) }

//verif:replace (*github.com/klauspost/pgzip.Writer).Reset
func PgzipReset(z *pgzip.Writer, w io.Writer) { newComp(z, w, KindGzip) }

//verif:replace (*github.com/klauspost/compress/zstd.Encoder).Write
func ZstdWrite(z *zstd.Encoder, p []byte) (int, error) { return compStates[z].write(p) }

//verif:replace (*github.com/klauspost/compress/zstd.Encoder).Close
func ZstdClose(z *zstd.Encoder) error { return compStates[z].close() }

//verif:replace (*github.com/klauspost/compress/zstd.Encoder).ReadFrom
func ZstdReadFrom(z *zstd.Encoder, r io.Reader) (int64, error) {
	var total int64
	buf := make([]byte, 64)
	for {
		k, err := r.Read(buf)
		if k > 0 {
			if _, werr := compStates[z].write(buf[:k]); werr != nil {
				return total, werr
			}
			total += int64(k)
		}
		if err == io.EOF {
			return total, nil
		}
		if err != nil {
			return total, err
		}
	}
}

//verif:replace github.com/klauspost/compress/zstd.WithEncoderLevel
func ZstdWithEncoderLevel(l zstd.EncoderLevel) zstd.EOption { return nil }

//verif:replace github.com/klauspost/compress/zstd.EncoderLevelFromZstd
func ZstdEncoderLevelFromZstd(level int) zstd.EncoderLevel { return zstd.SpeedDefault }

//verif:replace github.com/klauspost/pgzip.NewWriterLevel
func PgzipNewWriterLevel(w io.Writer, level int) (*pgzip.Writer, error) {
	if level < pgzip.ConstantCompression || level > pgzip.BestCompression {
		return nil, fmt.Errorf("gzip: invalid compression level: %d", level)
	}
	return PgzipNewWriter(w), nil
}
