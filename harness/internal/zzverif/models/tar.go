//go:build verif

package models

import (
	"archive/tar"

	"fmt"
	zz "github.com/goreleaser/nfpm/v2/internal/zzverif"
	"io"
	"sort"
)

// Model of archive/tar.Writer. Contract kept from the real writer: an entry is
// a header followed by exactly Header.Size payload bytes (writing more is
// ErrWriteTooLong, starting the next entry or closing early is an error), the
// stream is 512-byte framed, Close appends two zero blocks, every error of the
// underlying writer is returned and sticks. NOT modelled: the USTAR/PAX/GNU
// byte layout and field-encodability limits (long names, large numbers). The
// header block written here is an injective, trivially decodable layout of the
// same fields (see DecodeTar); it is not tar.

const (
	tarBlock   = 512
	tarMagic0  = 0x54 // 'T'
	tarMagic1  = 0x48 // 'H'
	offNameLen = 2
	offName    = 8   // up to 200 bytes
	offMode    = 208 // 8 bytes big endian
	offSize    = 216
	offMTime   = 224
	offType    = 232
	offFormat  = 233
	offLinkLen = 234
	offUnLen   = 236
	offGnLen   = 237
	offPaxN    = 238
	offLink    = 240 // up to 150 bytes
	offUname   = 400 // up to 50
	offGname   = 450 // up to 50
)

type TarEntry struct {
	Hdr  tar.Header
	Data []byte
}

type TarState struct {
	W         io.Writer
	Entries   []*TarEntry
	remaining int64
	pad       int
	Closed    bool
	err       error
}

var (
	tarWriters = map[*tar.Writer]*TarState{}
	TarOrder   []*TarState // in creation order
)

//verif:replace archive/tar.NewWriter
func TarNewWriter(w io.Writer) *tar.Writer {
	tw := new(tar.Writer)
	st := &TarState{W: w}
	tarWriters[tw] = st
	TarOrder = append(TarOrder, st)
	return tw
}

func put64(b []byte, off int, v int64) { zz.Put64(b, off, v) }

func (st *TarState) write(p []byte) error {
	if st.err != nil {
		return st.err
	}
	n, err := st.W.Write(p)
	if err == nil && n != len(p) {
		err = io.ErrShortWrite
	}
	if err != nil {
		st.err = err
	}
	return err
}

func (st *TarState) flush() error {
	if st.err != nil {
		return st.err
	}
	if st.remaining > 0 {
		return fmt.Errorf("archive/tar: missed writing %d bytes", st.remaining)
	}
	if st.pad > 0 {
		if err := st.write(make([]byte, st.pad)); err != nil {
			return err
		}
		st.pad = 0
	}
	return nil
}

//verif:replace (*archive/tar.Writer).Flush
func TarFlush(tw *tar.Writer) error { zz.Touch(tw); return tarWriters[tw].flush() }

func sortedKeys(m map[string]string) []string {
	ks := make([]string, 0, len(m))
	for k := range m {
		ks = append(ks, k)
	}
	sort.Strings(ks)
	return ks
}

//verif:replace (*archive/tar.Writer).WriteHeader
func TarWriteHeader(tw *tar.Writer, h *tar.Header) error {
	zz.Touch(tw)
	st := tarWriters[tw]
	if st.Closed {
		return tar.ErrWriteAfterClose
	}
	if err := st.flush(); err != nil {
		return err
	}
	if len(h.Name) > 200 || len(h.Linkname) > 150 || len(h.Uname) > 50 || len(h.Gname) > 50 {
		return fmt.Errorf("archive/tar: model: field too long")
	}
	if (h.Format == tar.FormatUSTAR || h.Format == tar.FormatPAX) && (h.Mode < 0 || h.Mode > 0o7777777) {
		// USTAR and PAX store the mode in 7 octal digits; only GNU has a binary escape
		// (an unspecified format lets the writer fall back to GNU)
		return fmt.Errorf("archive/tar: cannot encode header: Mode=%d", h.Mode)
	}
	e := &TarEntry{Hdr: *h}
	st.Entries = append(st.Entries, e)
	size := h.Size
	if h.Typeflag == tar.TypeDir || h.Typeflag == tar.TypeSymlink || h.Typeflag == tar.TypeLink {
		size = 0
	}
	blk := make([]byte, tarBlock)
	blk[0], blk[1] = tarMagic0, tarMagic1
	blk[offNameLen] = byte(len(h.Name))
	copy(blk[offName:], h.Name)
	put64(blk, offMode, h.Mode)
	put64(blk, offSize, size)
	if !h.ModTime.IsZero() { // the real writer stores a zero time.Time as 0
		sec := h.ModTime.Unix()
		if h.Format == tar.FormatUnknown && h.ModTime.Nanosecond() >= 500000000 {
			// unless a format is chosen explicitly the real writer ROUNDS ModTime to
			// the nearest second (halfway up); explicit USTAR/GNU headers keep the
			// whole seconds
			sec++
		}
		put64(blk, offMTime, sec)
	}
	blk[offType] = h.Typeflag
	blk[offFormat] = byte(modelFormat(h))
	blk[offLinkLen] = byte(len(h.Linkname))
	blk[offUnLen] = byte(len(h.Uname))
	blk[offGnLen] = byte(len(h.Gname))
	copy(blk[offLink:], h.Linkname)
	copy(blk[offUname:], h.Uname)
	copy(blk[offGname:], h.Gname)
	keys := sortedKeys(h.PAXRecords)
	blk[offPaxN] = byte(len(keys))
	if err := st.write(blk); err != nil {
		return err
	}
	if len(keys) > 0 {
		// one extra block per record: [klen][vlen][key][value]
		for _, k := range keys {
			val := h.PAXRecords[k]
			if len(k)+len(val) > tarBlock-4 {
				return fmt.Errorf("archive/tar: model: PAX record too long")
			}
			pb := make([]byte, tarBlock)
			pb[0] = byte(len(k))
			pb[1] = byte(len(val) >> 8)
			pb[2] = byte(len(val))
			copy(pb[4:], k)
			copy(pb[4+len(k):], val)
			if err := st.write(pb); err != nil {
				return err
			}
		}
	}
	st.remaining = size
	st.pad = int((tarBlock - size%tarBlock) % tarBlock)
	return nil
}

//verif:replace (*archive/tar.Writer).Write
func TarWrite(tw *tar.Writer, p []byte) (int, error) {
	zz.Touch(tw)
	st := tarWriters[tw]
	if st.Closed {
		return 0, tar.ErrWriteAfterClose
	}
	if st.err != nil {
		return 0, st.err
	}
	tooLong := false
	if int64(len(p)) > st.remaining {
		p = p[:st.remaining]
		tooLong = true
	}
	if len(p) > 0 {
		if err := st.write(p); err != nil {
			return 0, err
		}
		e := st.Entries[len(st.Entries)-1]
		e.Data = append(e.Data, p...)
		st.remaining -= int64(len(p))
	}
	if tooLong {
		return len(p), tar.ErrWriteTooLong
	}
	return len(p), nil
}

//verif:replace (*archive/tar.Writer).Close
func TarClose(tw *tar.Writer) error {
	zz.Touch(tw)
	st := tarWriters[tw]
	if st.Closed {
		if st.err == tar.ErrWriteAfterClose {
			return nil
		}
		return st.err
	}
	st.Closed = true
	if st.err != nil {
		return st.err
	}
	if err := st.flush(); err != nil {
		st.err = err
		return err
	}
	if err := st.write(make([]byte, 2*tarBlock)); err != nil {
		return err
	}
	st.err = tar.ErrWriteAfterClose
	return nil
}

// modelFormat: the format the real writer ends up using for short ASCII fields:
// the one requested, or USTAR when none is requested (PAX records force PAX).
func modelFormat(h *tar.Header) tar.Format {
	if h.Format != tar.FormatUnknown {
		return h.Format
	}
	if len(h.PAXRecords) > 0 {
		return tar.FormatPAX
	}
	return tar.FormatUSTAR
}
