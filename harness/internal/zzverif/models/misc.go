//go:build verif

package models

import (
	"fmt"
	"io"
	"net/mail"
	"strings"
	"text/template"

	"github.com/Masterminds/semver/v3"
	"github.com/goreleaser/chglog"
	"gopkg.in/yaml.v3"

	zz "github.com/goreleaser/nfpm/v2/internal/zzverif"
)

// Model of net/mail.ParseAddress (RFC 5322 parser, not executable): accepts
// "Name <addr>" and bare "addr" forms with an '@'; anything else is an error.
// Only used for apk's default key name.
//
//verif:replace net/mail.ParseAddress
func MailParseAddress(s string) (*mail.Address, error) {
	i, j := strings.IndexByte(s, '<'), strings.LastIndexByte(s, '>')
	if i >= 0 && j > i {
		return &mail.Address{Name: strings.TrimSpace(s[:i]), Address: s[i+1 : j]}, nil
	}
	if strings.IndexByte(s, '@') > 0 && !strings.ContainsAny(s, " <>") {
		return &mail.Address{Address: s}, nil
	}
	return nil, fmt.Errorf("mail: no angle-addr")
}

// ---------------------------------------------------------------- yaml.v3 (reflection-driven decoder)
//
// Contract stub: the decoder remembers whether KnownFields(true) was requested;
// Decode hands the target to a harness-supplied filler (zz.Store("yaml.fill", func(any) error))
// and publishes the strictness flag as zz.Load("yaml.known"). That yaml.v3 rejects
// unknown keys when the flag is set is the library's behaviour and is outside the claim.

var yamlKnown = map[*yaml.Decoder]bool{}

//verif:replace gopkg.in/yaml.v3.NewDecoder
func YamlNewDecoder(r io.Reader) *yaml.Decoder {
	d := new(yaml.Decoder)
	yamlKnown[d] = false
	return d
}

//verif:replace (*gopkg.in/yaml.v3.Decoder).KnownFields
func YamlKnownFields(d *yaml.Decoder, enable bool) { yamlKnown[d] = enable }

//verif:replace (*gopkg.in/yaml.v3.Decoder).Decode
func YamlDecode(d *yaml.Decoder, v any) error {
	zz.Store("yaml.known", yamlKnown[d])
	// a type with its own UnmarshalYAML takes over the decoding of its subtree;
	// whatever it does with the node (see NodeDecode) is part of parsing
	zz.CallUnmarshalers(v)
	if f, ok := zz.Load("yaml.fill").(func(any) error); ok {
		return f(v)
	}
	zz.Unsupported("yaml decoding without a prepared result")
	return nil
}

// ---------------------------------------------------------------- Masterminds/semver (regexp-driven parser)
//
// Contract stub: NewVersion returns what the harness prepared with
// zz.Store("semver.next", *semver.Version | error). Which strings parse is outside the claim.

//verif:replace github.com/Masterminds/semver/v3.NewVersion
func SemverNewVersion(s string) (*semver.Version, error) {
	// a harness may pin the one string that parses (anything else is not a semantic version)
	if want, ok := zz.Load("semver.expect").(string); ok && s != want {
		return nil, fmt.Errorf("invalid semantic version")
	}
	switch r := zz.Load("semver.next").(type) {
	case *semver.Version:
		return r, nil
	case error:
		return nil, r
	}
	zz.Unsupported("semver.NewVersion without a prepared result")
	return nil, nil
}

// A node decoded on its own (value.Decode(&x) inside a custom UnmarshalYAML)
// uses a fresh decoder: KnownFields of the outer decoder does NOT apply, unknown
// keys of that subtree are silently ignored.
//
//verif:replace (*gopkg.in/yaml.v3.Node).Decode
func YamlNodeDecode(n *yaml.Node, v any) error {
	zz.Store("yaml.node.decoded.nonstrictly", true)
	return nil
}

// ---------------------------------------------------------------- goreleaser/chglog (yaml + sprig templates)
//
// Contract stub: a changelog file that exists parses to one opaque entry and
// formats to an opaque, non-empty text of fixed length (fresh symbolic bytes,
// printable, no line feed inside). What the changelog says is outside the claim;
// that its bytes are shipped and digested like any other member is inside.

//verif:replace github.com/goreleaser/chglog.Parse
func ChglogParse(file string) (chglog.ChangeLogEntries, error) {
	if _, err := OsStat(file); err != nil {
		return nil, err
	}
	return chglog.ChangeLogEntries{&chglog.ChangeLog{}}, nil
}

//verif:replace github.com/goreleaser/chglog.DebTemplate
func ChglogDebTemplate() (*template.Template, error) { return nil, nil }

//verif:replace github.com/goreleaser/chglog.LoadTemplateData
func ChglogLoadTemplateData(data string) (*template.Template, error) { return nil, nil }

//verif:replace github.com/goreleaser/chglog.FormatChangelog
func ChglogFormatChangelog(l *chglog.PackageChangeLog, tpl *template.Template) (string, error) {
	b := zz.FreshBytes("changelog", 5)
	for i := range b {
		b[i] = 'a' + b[i]%26
	}
	return string(b), nil
}
