//go:build verif

package models

import (
	"fmt"
	"net/mail"
	"strings"
)

// Model of net/mail.ParseAddress (RFC 5322 parser, not executable): accepts
// "Name <addr>" and bare "addr" forms with an '@'; anything else is an error.
// Only used for apk's default key name.
//
//verif:replace net/mail.ParseAddress
func MailParseAddress(s string) (*mail.Address, error) {
	i, j := strings.IndexByte(s, '<'), strings.LastIndexByte(s, '>')
	if i >= 0 && j > i {
		return &mail.Address{Name: strings.TrimSpace(s[:i]), Address: s[i+1 : j]}, nil
	}
	if strings.IndexByte(s, '@') > 0 && !strings.ContainsAny(s, " <>") {
		return &mail.Address{Address: s}, nil
	}
	return nil, fmt.Errorf("mail: no angle-addr")
}
