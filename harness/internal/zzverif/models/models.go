//go:build verif

// Package models holds Go models of library functions that gosym cannot
// execute from their real SSA (syscalls, compression, cryptography, reflection).
// A function annotated with `//verif:replace <ssa function name>` is called in
// place of the named function by the symbolic executor. Natively this package
// is compiled but never called.
package models
