//go:build verif

package models

import (
	"fmt"
	"io"
	"io/fs"
	"os"
	"path/filepath"
	"strings"
	"time"

	"github.com/goreleaser/fileglob"
	zz "github.com/goreleaser/nfpm/v2/internal/zzverif"
)

// The symbolic file system: a finite set of concrete paths, each with
// symbolic metadata and (short) symbolic content. Contract: a path that was
// not added does not exist; metadata and content do not change during a run;
// Unreadable makes every open/read of that path fail (stat still works).

const (
	KFile    = 1
	KDir     = 2
	KSymlink = 3
)

type Node struct {
	Path       string
	Kind       int
	Mode       fs.FileMode // full mode incl. type bits for dirs/symlinks
	Size       int64
	MTime      time.Time
	Content    []byte
	Link       string
	Unreadable bool
	ReadFailAt int // >0: Read fails after this many bytes (mid-file I/O error)
	Absent     bool
}

var (
	Nodes    []*Node
	Cwd      = "/work"
	Hostname = "buildhost"
	HostErr  error
	Env      = map[string]string{}
	Created  []string // paths passed to os.Create, in order
	Removed  []string // paths passed to os.Remove, in order
	Written  = map[string][]byte{}
	// Faults observed: set when a model returns an injected environment failure.
	FaultSeen bool
	nativeDir string
)

// GlobOverride, when set, is what fileglob.Glob returns (see FileglobGlob).
var GlobOverride []string

var ErrInjected = fmt.Errorf("injected I/O error")

// ---------------------------------------------------------------- harness side

// AddFile registers a regular file; natively it is materialised under a
// scratch root and the real path is returned.
func AddFile(path string, content []byte, mode fs.FileMode, mtime time.Time) string {
	if !zz.Symbolic() {
		return nativeAdd(path, KFile, content, mode, mtime, "")
	}
	Nodes = append(Nodes, &Node{Path: path, Kind: KFile, Mode: mode, Size: int64(len(content)), MTime: mtime, Content: content})
	return path
}

func AddDir(path string, mode fs.FileMode, mtime time.Time) string {
	if !zz.Symbolic() {
		return nativeAdd(path, KDir, nil, mode, mtime, "")
	}
	Nodes = append(Nodes, &Node{Path: path, Kind: KDir, Mode: mode | fs.ModeDir, MTime: mtime})
	return path
}

func AddSymlink(path, target string, mtime time.Time) string {
	if !zz.Symbolic() {
		return nativeAdd(path, KSymlink, nil, 0o777, mtime, target)
	}
	Nodes = append(Nodes, &Node{Path: path, Kind: KSymlink, Mode: fs.ModeSymlink | 0o777, MTime: mtime, Link: target, Size: int64(len(target))})
	return path
}

// Remove makes a previously added path absent (natively: deletes it).
func Remove(path string) {
	if !zz.Symbolic() {
		os.Remove(path)
		return
	}
	if n := find(path); n != nil {
		n.Absent = true
	}
}

// NodeOf returns the model node (symbolic runs only).
func NodeOf(path string) *Node { return find(path) }

func nativeRoot() string {
	if nativeDir == "" {
		d, err := os.MkdirTemp("", "zzverif-fs-")
		if err != nil {
			panic(err)
		}
		nativeDir = d
		zz.AtReplayEnd(func() { os.RemoveAll(d); nativeDir = "" })
	}
	return nativeDir
}

func nativeAdd(path string, kind int, content []byte, mode fs.FileMode, mtime time.Time, target string) string {
	real := filepath.Join(nativeRoot(), path)
	os.MkdirAll(filepath.Dir(real), 0o755)
	switch kind {
	case KFile:
		if err := os.WriteFile(real, content, 0o600); err != nil {
			panic(err)
		}
		os.Chmod(real, mode)
		os.Chtimes(real, mtime, mtime)
	case KDir:
		os.MkdirAll(real, 0o755)
		os.Chmod(real, mode.Perm())
		os.Chtimes(real, mtime, mtime)
	case KSymlink:
		os.Symlink(target, real)
	}
	return real
}

// ---------------------------------------------------------------- lookup

// abs resolves a relative name against the model's working directory.
func abs(name string) string {
	if name != "" && !filepath.IsAbs(name) && Cwd != "" {
		return filepath.Join(Cwd, name)
	}
	return name
}

// Chdir makes path the working directory (natively the process really changes
// directory until the end of the replay).
func Chdir(path string) {
	if !zz.Symbolic() {
		prev, _ := os.Getwd()
		os.Chdir(filepath.Join(nativeRoot(), path))
		zz.AtReplayEnd(func() { os.Chdir(prev) })
		return
	}
	Cwd = path
}

func find(name string) *Node {
	name = abs(name)
	c := filepath.Clean(name)
	for _, n := range Nodes {
		if n.Absent {
			continue
		}
		if n.Path == name || n.Path == c {
			return n
		}
	}
	return nil
}

func follow(n *Node) *Node {
	for i := 0; n != nil && n.Kind == KSymlink && i < 4; i++ {
		t := n.Link
		if !filepath.IsAbs(t) {
			t = filepath.Join(filepath.Dir(n.Path), t)
		}
		n = find(t)
	}
	if n != nil && n.Kind == KSymlink {
		return nil
	}
	return n
}

func notExist(op, name string) error {
	return &fs.PathError{Op: op, Path: name, Err: fs.ErrNotExist}
}

type fileInfo struct {
	name  string
	size  int64
	mode  fs.FileMode
	mtime time.Time
}

func (f *fileInfo) Name() string       { return f.name }
func (f *fileInfo) Size() int64        { return f.size }
func (f *fileInfo) Mode() fs.FileMode  { return f.mode }
func (f *fileInfo) ModTime() time.Time { return f.mtime }
func (f *fileInfo) IsDir() bool        { return f.mode&fs.ModeDir != 0 }
func (f *fileInfo) Sys() any           { return nil }

func infoOf(n *Node) *fileInfo {
	return &fileInfo{name: filepath.Base(n.Path), size: n.Size, mode: n.Mode, mtime: n.MTime}
}

type dirEntry struct{ n *Node }

func (d *dirEntry) Name() string               { return filepath.Base(d.n.Path) }
func (d *dirEntry) IsDir() bool                { return d.n.Kind == KDir }
func (d *dirEntry) Type() fs.FileMode          { return d.n.Mode.Type() }
func (d *dirEntry) Info() (fs.FileInfo, error) { return infoOf(d.n), nil }

// ---------------------------------------------------------------- os.*

//verif:replace os.Stat
func OsStat(name string) (fs.FileInfo, error) {
	n := follow(find(name))
	if n == nil {
		return nil, notExist("stat", name)
	}
	return infoOf(n), nil
}

//verif:replace os.Lstat
func OsLstat(name string) (fs.FileInfo, error) {
	n := find(name)
	if n == nil {
		return nil, notExist("lstat", name)
	}
	return infoOf(n), nil
}

//verif:replace os.ReadFile
func OsReadFile(name string) ([]byte, error) {
	n := follow(find(name))
	if n == nil {
		return nil, notExist("open", name)
	}
	if n.Unreadable {
		FaultSeen = true
		return nil, &fs.PathError{Op: "open", Path: name, Err: fs.ErrPermission}
	}
	if n.Kind == KDir {
		return nil, &fs.PathError{Op: "read", Path: name, Err: fmt.Errorf("is a directory")}
	}
	if n.ReadFailAt > 0 {
		FaultSeen = true
		return nil, &fs.PathError{Op: "read", Path: name, Err: ErrInjected}
	}
	out := make([]byte, len(n.Content))
	copy(out, n.Content)
	return out, nil
}

type fileState struct {
	n      *Node
	name   string
	pos    int
	closed bool
	wr     bool
	wpos   int // write offset (files opened for writing)
}

var openFiles = map[*os.File]*fileState{}

//verif:replace os.Open
func OsOpen(name string) (*os.File, error) { return OsOpenFile(name, os.O_RDONLY, 0) }

//verif:replace os.OpenFile
func OsOpenFile(name string, flag int, perm fs.FileMode) (*os.File, error) {
	if flag&(os.O_WRONLY|os.O_RDWR) != 0 {
		// opened for writing: the file keeps what it holds unless O_TRUNC is given;
		// writes go to the current offset (the end with O_APPEND)
		n := follow(find(name))
		_, written := Written[name]
		if n == nil && !written && flag&os.O_CREATE == 0 {
			return nil, notExist("open", name)
		}
		Created = append(Created, name)
		if CreateErr != nil {
			return nil, CreateErr
		}
		var cur []byte
		if written {
			cur = Written[name]
		} else if n != nil {
			cur = append([]byte{}, n.Content...)
		}
		if flag&os.O_TRUNC != 0 {
			cur = nil
		}
		Written[name] = cur
		st := &fileState{name: name, wr: true}
		if flag&os.O_APPEND != 0 {
			st.wpos = len(cur)
		}
		f := new(os.File)
		openFiles[f] = st
		return f, nil
	}
	n := follow(find(name))
	if n == nil {
		return nil, notExist("open", name)
	}
	if n.Unreadable {
		FaultSeen = true
		return nil, &fs.PathError{Op: "open", Path: name, Err: fs.ErrPermission}
	}
	f := new(os.File)
	openFiles[f] = &fileState{n: n, name: name}
	return f, nil
}

//verif:replace os.Create
func OsCreate(name string) (*os.File, error) {
	Created = append(Created, name)
	if CreateErr != nil {
		return nil, CreateErr
	}
	f := new(os.File)
	openFiles[f] = &fileState{name: name, wr: true}
	Written[name] = nil
	return f, nil
}

var CreateErr error

//verif:replace os.Remove
func OsRemove(name string) error {
	Removed = append(Removed, name)
	return nil
}

//verif:replace (*os.File).Read
func FileRead(f *os.File, p []byte) (int, error) {
	st := openFiles[f]
	if st == nil || st.n == nil {
		return 0, fs.ErrClosed
	}
	if st.n.Kind == KDir {
		return 0, &fs.PathError{Op: "read", Path: st.name, Err: fmt.Errorf("is a directory")}
	}
	if st.n.ReadFailAt > 0 && st.pos >= st.n.ReadFailAt-1 {
		FaultSeen = true
		return 0, &fs.PathError{Op: "read", Path: st.name, Err: ErrInjected}
	}
	if st.pos >= len(st.n.Content) {
		if len(p) == 0 {
			return 0, nil
		}
		return 0, io.EOF
	}
	lim := len(st.n.Content)
	if st.n.ReadFailAt > 0 && st.n.ReadFailAt-1 < lim {
		lim = st.n.ReadFailAt - 1
	}
	k := copy(p, st.n.Content[st.pos:lim])
	st.pos += k
	return k, nil
}

//verif:replace (*os.File).WriteTo
func FileWriteTo(f *os.File, w io.Writer) (int64, error) {
	var total int64
	buf := make([]byte, 64)
	for {
		k, err := FileRead(f, buf)
		if k > 0 {
			nw, werr := w.Write(buf[:k])
			total += int64(nw)
			if werr != nil {
				return total, werr
			}
			if nw != k {
				return total, io.ErrShortWrite
			}
		}
		if err == io.EOF {
			return total, nil
		}
		if err != nil {
			return total, err
		}
	}
}

//verif:replace (*os.File).Write
func FileWrite(f *os.File, p []byte) (int, error) {
	st := openFiles[f]
	if st == nil || !st.wr || st.closed {
		return 0, fs.ErrClosed
	}
	cur := Written[st.name]
	for i := range p {
		if st.wpos+i < len(cur) {
			cur[st.wpos+i] = p[i]
		} else {
			cur = append(cur, p[i])
		}
	}
	st.wpos += len(p)
	Written[st.name] = cur
	return len(p), nil
}

//verif:replace (*os.File).ReadFrom
func FileReadFrom(f *os.File, r io.Reader) (int64, error) {
	var total int64
	buf := make([]byte, 64)
	for {
		k, err := r.Read(buf)
		if k > 0 {
			FileWrite(f, buf[:k])
			total += int64(k)
		}
		if err == io.EOF {
			return total, nil
		}
		if err != nil {
			return total, err
		}
	}
}

//verif:replace (*os.File).Close
func FileClose(f *os.File) error {
	st := openFiles[f]
	if st == nil {
		return fs.ErrInvalid
	}
	if st.closed {
		return fs.ErrClosed
	}
	st.closed = true
	return nil
}

//verif:replace (*os.File).Stat
func FileStat(f *os.File) (fs.FileInfo, error) {
	st := openFiles[f]
	if st == nil || st.n == nil {
		return nil, fs.ErrInvalid
	}
	return infoOf(st.n), nil
}

//verif:replace (*os.File).Name
func FileName(f *os.File) string {
	if st := openFiles[f]; st != nil {
		return st.name
	}
	return ""
}

//verif:replace os.Readlink
func OsReadlink(name string) (string, error) {
	n := find(name)
	if n == nil {
		return "", notExist("readlink", name)
	}
	if n.Kind != KSymlink {
		return "", &fs.PathError{Op: "readlink", Path: name, Err: fs.ErrInvalid}
	}
	return n.Link, nil
}

//verif:replace os.Hostname
func OsHostname() (string, error) { return Hostname, HostErr }

//verif:replace os.Getenv
func OsGetenv(key string) string { return Env[key] }

//verif:replace os.Getwd
func OsGetwd() (string, error) { return Cwd, nil }

func children(dir string) []*Node {
	var out []*Node
	d := filepath.Clean(abs(dir))
	for _, n := range Nodes {
		if n.Absent {
			continue
		}
		if filepath.Dir(n.Path) == d && n.Path != d {
			// insertion sort by base name
			i := len(out)
			out = append(out, n)
			for i > 0 && filepath.Base(out[i-1].Path) > filepath.Base(n.Path) {
				out[i] = out[i-1]
				i--
			}
			out[i] = n
		}
	}
	return out
}

//verif:replace os.ReadDir
func OsReadDir(name string) ([]fs.DirEntry, error) {
	n := follow(find(name))
	if n == nil {
		return nil, notExist("open", name)
	}
	if n.Kind != KDir {
		return nil, &fs.PathError{Op: "readdirent", Path: name, Err: fmt.Errorf("not a directory")}
	}
	if n.Unreadable {
		FaultSeen = true
		return nil, &fs.PathError{Op: "open", Path: name, Err: fs.ErrPermission}
	}
	var out []fs.DirEntry
	for _, c := range children(n.Path) {
		out = append(out, &dirEntry{c})
	}
	return out, nil
}

// ---------------------------------------------------------------- fileglob

func hasMeta(p string) bool { return strings.ContainsAny(p, "*?[]{}\\!") }

//verif:replace github.com/goreleaser/fileglob.ContainsMatchers
func FileglobContainsMatchers(pattern string) bool {
	if GlobOverride != nil {
		return true
	}
	if hasMeta(pattern) {
		zz.Unsupported("glob metacharacters are outside the bound of the file-system model")
	}
	return false
}

func filesBeneath(dir *Node, out []string) []string {
	for _, c := range children(dir.Path) {
		if c.Kind == KDir {
			out = filesBeneath(c, out)
		} else {
			out = append(out, filepath.ToSlash(filepath.Clean(c.Path)))
		}
	}
	return out
}

// FileglobGlob models fileglob.Glob for literal patterns with the options nfpm
// passes (MatchDirectoryIncludesContents, MaybeRootFS, optionally QuoteMeta):
// a file or symlink matches itself, a directory matches every non-directory
// beneath it in lexical walk order, a missing path is ErrNotExist.
//
//verif:replace github.com/goreleaser/fileglob.Glob
func FileglobGlob(pattern string, opts ...fileglob.OptFunc) ([]string, error) {
	if GlobOverride != nil {
		// a harness plays the part of a pattern WITH metacharacters: it names the
		// (existing) files the pattern matches; everything nfpm does with the
		// matches is then real code
		return GlobOverride, nil
	}
	if hasMeta(pattern) {
		zz.Unsupported("glob metacharacters are outside the bound of the file-system model")
	}
	if strings.HasPrefix(pattern, "../") {
		pattern = filepath.ToSlash(filepath.Join(Cwd, pattern))
	}
	p := strings.TrimSuffix(pattern, "/")
	if p == "" {
		p = "/"
	}
	l := find(p)
	if l != nil && l.Kind == KSymlink && !filepath.IsAbs(p) {
		return []string{p}, nil
	}
	n := follow(l)
	if n == nil {
		return []string{}, fmt.Errorf("matching %q: %w", p, fs.ErrNotExist)
	}
	if n.Kind != KDir {
		return []string{filepath.ToSlash(filepath.Clean(p))}, nil
	}
	if n.Unreadable {
		FaultSeen = true
		return nil, fmt.Errorf("glob failed: %w", &fs.PathError{Op: "open", Path: p, Err: fs.ErrPermission})
	}
	return filesBeneath(n, nil), nil
}

// StatTime returns the unix mtime of an added path as the harness gave it (0 if unknown).
func StatTime(path string) int64 {
	if !zz.Symbolic() {
		fi, err := os.Stat(filepath.Join(nativeRoot(), path))
		if err != nil {
			return 0
		}
		return fi.ModTime().Unix()
	}
	if n := find(path); n != nil {
		return n.MTime.Unix()
	}
	return 0
}

// Exists: a file is at path now (symbolically: created through os.Create and not removed, or added).
func Exists(path string) bool {
	if !zz.Symbolic() {
		_, err := os.Lstat(path)
		return err == nil
	}
	ex := find(path) != nil
	for _, c := range Created {
		if c == path {
			ex = true
		}
	}
	for _, r := range Removed {
		if r == path {
			ex = false
		}
	}
	return ex
}

// FileContent returns what a path holds at the end of the run (nil if it does not exist).
func FileContent(path string) []byte {
	if !zz.Symbolic() {
		b, err := os.ReadFile(path)
		if err != nil {
			return nil
		}
		return b
	}
	if !Exists(path) {
		return nil
	}
	if b, ok := Written[path]; ok {
		return b
	}
	if n := follow(find(path)); n != nil {
		return n.Content
	}
	return nil
}

// NativePath maps a model path to where it is materialised natively (identity symbolically).
func NativePath(path string) string {
	if !zz.Symbolic() {
		return filepath.Join(nativeRoot(), path)
	}
	return path
}
