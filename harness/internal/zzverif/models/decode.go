//go:build verif

package models

import (
	"archive/tar"
	"bytes"
	"compress/gzip"
	"io"
	"strconv"
	"strings"

	"github.com/klauspost/compress/zstd"
	"github.com/ulikunitz/xz"

	zz "github.com/goreleaser/nfpm/v2/internal/zzverif"
)

// Decoders used by harnesses to look at what a packager produced. They have
// two implementations behind one API: under the symbolic executor they parse
// the model framing of tar.go / compress.go (concrete structure, symbolic
// field contents); in a native build (counterexample replay, witness
// validation) they parse the real bytes with readers that share nothing with
// nfpm's writers (archive/tar, compress/gzip readers, xz and zstd decoders).

type Entry struct {
	Name   string
	Type   byte
	Mode   int64
	Size   int64
	MTime  int64
	Uname  string
	Gname  string
	Link   string
	Data   []byte
	Pax    map[string]string
	Format int // tar.Format of the header as written (GNU, USTAR, PAX)
}

func get64(b []byte, off int) int64 { return zz.Get64(b, off) }

// DecodeTar returns the entries of a tar stream and whether it ends with the
// two-zero-block end-of-archive marker.
func DecodeTar(b []byte) (entries []Entry, complete bool, ok bool) {
	if !zz.Symbolic() {
		return nativeDecodeTar(b)
	}
	pos := 0
	for pos+tarBlock <= len(b) {
		blk := b[pos : pos+tarBlock]
		if blk[0] != tarMagic0 || blk[1] != tarMagic1 {
			break
		}
		var e Entry
		nl := int(blk[offNameLen])
		e.Name = string(blk[offName : offName+nl])
		e.Mode = get64(blk, offMode)
		e.Size = get64(blk, offSize)
		e.MTime = get64(blk, offMTime)
		e.Type = blk[offType]
		e.Format = int(blk[offFormat])
		e.Link = string(blk[offLink : offLink+int(blk[offLinkLen])])
		e.Uname = string(blk[offUname : offUname+int(blk[offUnLen])])
		e.Gname = string(blk[offGname : offGname+int(blk[offGnLen])])
		pos += tarBlock
		np := int(blk[offPaxN])
		if np > 0 {
			e.Pax = map[string]string{}
			for i := 0; i < np; i++ {
				pb := b[pos : pos+tarBlock]
				kl := int(pb[0])
				vl := int(pb[1])<<8 | int(pb[2])
				e.Pax[string(pb[4:4+kl])] = string(pb[4+kl : 4+kl+vl])
				pos += tarBlock
			}
		}
		sz := int(e.Size)
		if pos+sz > len(b) {
			return entries, false, false
		}
		e.Data = b[pos : pos+sz]
		pos += sz
		pos += (tarBlock - sz%tarBlock) % tarBlock
		entries = append(entries, e)
	}
	rest := len(b) - pos
	if rest == 0 {
		return entries, false, true
	}
	if rest == 2*tarBlock {
		return entries, true, true
	}
	return entries, false, false
}

func nativeDecodeTar(b []byte) ([]Entry, bool, bool) {
	var out []Entry
	tr := tar.NewReader(bytes.NewReader(b))
	for {
		h, err := tr.Next()
		if err == io.EOF {
			break
		}
		if err != nil {
			return out, false, false
		}
		data, err := io.ReadAll(tr)
		if err != nil {
			return out, false, false
		}
		e := Entry{Name: h.Name, Type: h.Typeflag, Mode: h.Mode, Size: h.Size, MTime: h.ModTime.Unix(), Uname: h.Uname, Gname: h.Gname, Link: h.Linkname, Data: data, Format: int(h.Format)}
		if len(h.PAXRecords) > 0 {
			e.Pax = map[string]string{}
			for k, v := range h.PAXRecords {
				if strings.HasPrefix(k, "APK-TOOLS.") {
					e.Pax[k] = v
				}
			}
			if len(e.Pax) == 0 {
				e.Pax = nil
			}
		}
		if e.Type == 0 {
			e.Type = tar.TypeReg
		}
		out = append(out, e)
	}
	complete := len(b) >= 1024
	if complete {
		for _, c := range b[len(b)-1024:] {
			if c != 0 {
				complete = false
				break
			}
		}
	}
	return out, complete, len(b)%512 == 0
}

// Decompress splits off one compressed member: its kind, its payload and the remaining bytes.
func Decompress(b []byte) (kind byte, payload []byte, rest []byte, ok bool) {
	if !zz.Symbolic() {
		return nativeDecompress(b)
	}
	if len(b) < 15 || b[0] != 0x1f || b[1] != 0x8b {
		return 0, nil, b, false
	}
	n := int(b[3])<<24 | int(b[4])<<16 | int(b[5])<<8 | int(b[6])
	if 7+n+8 > len(b) {
		return 0, nil, b, false
	}
	return b[2], b[7 : 7+n], b[7+n+8:], true
}

func nativeDecompress(b []byte) (byte, []byte, []byte, bool) {
	switch {
	case len(b) > 2 && b[0] == 0x1f && b[1] == 0x8b:
		br := bytes.NewReader(b)
		zr, err := gzip.NewReader(br)
		if err != nil {
			return 0, nil, b, false
		}
		zr.Multistream(false)
		out, err := io.ReadAll(zr)
		if err != nil {
			return 0, nil, b, false
		}
		return KindGzip, out, b[len(b)-br.Len():], true
	case len(b) > 6 && b[0] == 0xfd && b[1] == '7' && b[2] == 'z':
		zr, err := xz.NewReader(bytes.NewReader(b))
		if err != nil {
			return 0, nil, b, false
		}
		out, err := io.ReadAll(zr)
		if err != nil {
			return 0, nil, b, false
		}
		return KindXz, out, nil, true
	case len(b) > 4 && b[0] == 0x28 && b[1] == 0xb5 && b[2] == 0x2f && b[3] == 0xfd:
		zr, err := zstd.NewReader(bytes.NewReader(b))
		if err != nil {
			return 0, nil, b, false
		}
		defer zr.Close()
		out, err := io.ReadAll(zr)
		if err != nil {
			return 0, nil, b, false
		}
		return KindZstd, out, nil, true
	}
	return 0, nil, b, false
}

type ArMember struct {
	Name  string
	MTime string // decimal digits as stored
	Mode  string
	Body  []byte
}

// DecodeAr parses an ar archive (the real format in both modes: the ar writer is executed, not modelled).
func DecodeAr(b []byte) (members []ArMember, ok bool) {
	if len(b) < 8 || string(b[:8]) != "!<arch>\n" {
		return nil, false
	}
	pos := 8
	for pos < len(b) {
		if pos+60 > len(b) {
			return members, false
		}
		h := b[pos : pos+60]
		if h[58] != '`' || h[59] != '\n' {
			return members, false
		}
		sizeStr := strings.TrimRight(string(h[48:58]), " ")
		size, err := strconv.Atoi(sizeStr)
		if err != nil {
			return members, false
		}
		m := ArMember{
			Name:  strings.TrimRight(string(h[0:16]), " "),
			MTime: strings.TrimRight(string(h[16:28]), " "),
			Mode:  strings.TrimRight(string(h[40:48]), " "),
		}
		pos += 60
		if pos+size > len(b) {
			return members, false
		}
		m.Body = b[pos : pos+size]
		pos += size
		if size%2 == 1 {
			if pos >= len(b) || b[pos] != '\n' {
				return members, false
			}
			pos++
		}
		members = append(members, m)
	}
	return members, true
}

// Find returns the first entry with the given name.
func Find(es []Entry, name string) *Entry {
	for i := range es {
		if es[i].Name == name {
			return &es[i]
		}
	}
	return nil
}
