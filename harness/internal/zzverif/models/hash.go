//go:build verif

package models

import (
	"hash"

	zz "github.com/goreleaser/nfpm/v2/internal/zzverif"
)

// Model of crypto/md5, sha1, sha256: an uninterpreted function of the input
// bytes (zz.Hash): equal inputs give equal digests (functional consistency is
// asserted to the solver for every pair of applications); nothing else is
// known about the digest. Collision-freedom is therefore NOT assumed: a
// property that needs "different input => different digest" cannot be shown.

type hashState struct {
	kind string
	n    int
	data []byte
}

func (h *hashState) Write(p []byte) (int, error) { h.data = append(h.data, p...); return len(p), nil }
func (h *hashState) Sum(b []byte) []byte         { return append(b, zz.Hash(h.kind, h.data, h.n)...) }
func (h *hashState) Reset()                      { h.data = nil }
func (h *hashState) Size() int                   { return h.n }
func (h *hashState) BlockSize() int              { return 64 }

//verif:replace crypto/md5.New
func Md5New() hash.Hash { return &hashState{kind: "md5", n: 16} }

//verif:replace crypto/sha1.New
func Sha1New() hash.Hash { return &hashState{kind: "sha1", n: 20} }

//verif:replace crypto/sha256.New
func Sha256New() hash.Hash { return &hashState{kind: "sha256", n: 32} }

//verif:replace crypto/md5.Sum
func Md5Sum(data []byte) [16]byte {
	var out [16]byte
	copy(out[:], zz.Hash("md5", data, 16))
	return out
}

//verif:replace crypto/sha1.Sum
func Sha1Sum(data []byte) [20]byte {
	var out [20]byte
	copy(out[:], zz.Hash("sha1", data, 20))
	return out
}

//verif:replace crypto/sha256.Sum256
func Sha256Sum256(data []byte) [32]byte {
	var out [32]byte
	copy(out[:], zz.Hash("sha256", data, 32))
	return out
}
