//go:build verif

package cmd

import (
	"bytes"
	"errors"
	"io"
	"time"

	"github.com/goreleaser/nfpm/v2"
	v "github.com/goreleaser/nfpm/v2/internal/zzverif"
	"github.com/goreleaser/nfpm/v2/internal/zzverif/models"
)

// verifNameVersion: the upstream version of the settings built by verifNameInfoO:
// a semantic version, or a version that is used as written (not semver) and
// starts with a 'v' / holds more than three parts.
var verifNameVersion = "1.2.3"

var verifArches = []string{"amd64", "arm64", "386", "arm7", "arm6", "arm5"}

func verifNameInfo(name, pre, meta, rel, epoch, arch string) *nfpm.Info {
	return verifNameInfoO(name, pre, meta, rel, epoch, arch, "")
}

func verifNameInfoO(name, pre, meta, rel, epoch, arch, override string) *nfpm.Info {
	info := &nfpm.Info{Name: name, Arch: arch, Platform: "linux", Version: verifNameVersion, Prerelease: pre, VersionMetadata: meta,
		Release: rel, Epoch: epoch, Description: "d", Maintainer: "m <m@x>", MTime: time.Unix(1700000000, 0).UTC()}
	info.Umask = 0o022
	info.RPM.BuildHost = "host"
	// the format-specific architecture override (verbatim) of every format
	info.Deb.Arch, info.RPM.Arch, info.APK.Arch, info.ArchLinux.Arch, info.IPK.Arch = override, override, override, override, override
	return info
}

// verifForeignArch sets the architecture override of every format OTHER than
// the one being built to a value of its own: it must not reach this format.
func verifForeignArch(info *nfpm.Info, format, foreign string) {
	if format != "deb" {
		info.Deb.Arch = foreign
	}
	if format != "rpm" {
		info.RPM.Arch = foreign
	}
	if format != "apk" {
		info.APK.Arch = foreign
	}
	if format != "archlinux" {
		info.ArchLinux.Arch = foreign
	}
	if format != "ipk" {
		info.IPK.Arch = foreign
	}
}

func verifOpt(name string, n int, class string) string {
	if !v.NondetBool(name + ".set") {
		return ""
	}
	s := v.NondetStringN(name, n)
	v.Assume(v.AllIn(s, class))
	return s
}

// verifFileName: the conventional file name states the same name, version
// components and translated architecture as the metadata inside the package
// built from the same settings, ends in the conventional extension, and asking
// for it does not change the package built afterwards.
func verifFileName(format string) {
	verifNameVersion = []string{"1.2.3", "v1.2.3.4", "vista"}[v.NondetChoice("version", 3)]
	name := "n" + v.NondetStringN("name", 1)
	v.Assume(v.AllIn(name[1:], "a-z"))
	pre := verifOpt("pre", 2, "a-z")
	meta := verifOpt("meta", 1, "a-z")
	// the release: empty, or 1-2 characters incl. non-canonical numbers ("01", "+2") and words
	rel := ""
	if v.NondetBool("rel.set") {
		rel = v.NondetStringRange("rel", 1, 2)
		v.Assume(v.AllIn(rel, "0-9a-z+"))
	}
	epoch := verifOpt("epoch", 1, "1-9")
	arch := verifArches[v.NondetChoice("arch", len(verifArches))]
	override := verifOpt("archoverride", 2, "a-z")
	p := Packager(format)

	asked := verifNameInfoO(name, pre, meta, rel, epoch, arch, override)
	fresh := verifNameInfoO(name, pre, meta, rel, epoch, arch, override)
	if v.NondetBool("foreign.arch.overrides") {
		// the other formats' overrides are set too (a configuration shared between formats)
		verifForeignArch(asked, format, "zz")
		verifForeignArch(fresh, format, "zz")
	}
	fname := p.ConventionalFileName(asked)
	var b1, b2 bytes.Buffer
	err1 := p.Package(asked, &b1)
	err2 := p.Package(fresh, &b2)
	v.Reach("C15.name.ran")
	v.Observe("fname", fname)
	v.Assert(err1 == nil && err2 == nil, format+"-packages")
	if err1 != nil || err2 != nil {
		return
	}
	if format != "rpm" { // rpm bytes are opaque in the model; the decoded view is compared below
		v.Assert(bytes.Equal(b1.Bytes(), b2.Bytes()), format+"-asking-for-the-name-does-not-alter-the-package")
	}
	ext := p.(nfpm.PackagerWithExtension).ConventionalExtension()
	v.Assert(v.HasSuffix(fname, ext), format+"-name-ends-in-conventional-extension")
	vw, ok := Decode(format, b2.Bytes())
	v.Assert(ok, format+"-decodes")
	if !ok {
		return
	}
	stem := fname[:len(fname)-len(ext)]
	switch format {
	case "deb", "ipk":
		ctl := models.Find(vw.Control, "./control")
		if ctl == nil {
			v.Assert(false, format+"-control-present")
			return
		}
		t := string(ctl.Data)
		pn, _ := v.Field822(t, "Package")
		pv, _ := v.Field822(t, "Version")
		pa, _ := v.Field822(t, "Architecture")
		if epoch != "" { // the epoch is not part of a Debian file name
			pv = pv[len(epoch)+1:]
		}
		v.Assert(stem == pn+"_"+pv+"_"+pa, format+"-name-version-arch-agree-with-control")
	case "apk":
		pk := models.Find(vw.Control, ".PKGINFO")
		if pk == nil {
			v.Assert(false, "apk-pkginfo-present")
			return
		}
		t := string(pk.Data)
		v.Assert(stem == v.KV(t, "pkgname")[0]+"_"+v.KV(t, "pkgver")[0]+"_"+v.KV(t, "arch")[0], "apk-name-version-arch-agree-with-pkginfo")
	case "archlinux":
		pk := models.Find(vw.Control, ".PKGINFO")
		if pk == nil {
			v.Assert(false, "arch-pkginfo-present")
			return
		}
		t := string(pk.Data)
		pv := v.KV(t, "pkgver")[0]
		if epoch != "" { // "E:" is not part of the file name
			pv = pv[len(epoch)+1:]
		}
		if pre != "" && epoch == "" {
			v.Assert(stem == v.KV(t, "pkgname")[0]+"-"+pv+"-"+v.KV(t, "arch")[0], "archlinux-name-agrees-with-pkginfo-prerelease-without-epoch")
		} else {
			v.Assert(stem == v.KV(t, "pkgname")[0]+"-"+pv+"-"+v.KV(t, "arch")[0], "archlinux-name-agrees-with-pkginfo")
		}
	case "rpm":
		vw1, ok1 := Decode(format, b1.Bytes())
		_ = vw1
		_ = ok1
		r := vw.Rpm
		v.Assert(stem == r.Name+"-"+r.Version+"-"+r.Release+"."+r.Arch, "rpm-name-version-release-arch-agree-with-header")
	}
}

func Verif_C15_FileName_Deb()  { verifFileName("deb") }
func Verif_C15_FileName_Rpm()  { verifFileName("rpm") }
func Verif_C15_FileName_Apk()  { verifFileName("apk") }
func Verif_C15_FileName_Arch() { verifFileName("archlinux") }
func Verif_C15_FileName_Ipk()  { verifFileName("ipk") }

type verifCLIStub struct{ fail bool }

var errStubPackage = errors.New("zzverif: stub packager failed")

func (s verifCLIStub) Package(info *nfpm.Info, w io.Writer) error {
	w.Write([]byte("partial"))
	if s.fail {
		return errStubPackage
	}
	return nil
}
func (verifCLIStub) ConventionalFileName(*nfpm.Info) string { return "conv.stub" }

// verifCLIStub2 is a second registered format: a target named after it must not
// take over when another packager is asked for explicitly.
type verifCLIStub2 struct{}

func (verifCLIStub2) Package(info *nfpm.Info, w io.Writer) error {
	w.Write([]byte("other"))
	return nil
}
func (verifCLIStub2) ConventionalFileName(*nfpm.Info) string { return "conv.stb2" }

// Verif_C15_CLITarget: `nfpm package` writes exactly the requested file, or the
// conventional name inside the target directory (current directory for an
// empty target), infers the packager from the extension only when none is
// given, and leaves no file behind when packaging fails (C06's CLI clause).
func Verif_C15_CLITarget() {
	mt := time.Unix(1700000000, 0).UTC()
	cfgPath := models.AddFile("/work/nfpm.yaml", []byte("name: n\narch: amd64\nversion: 1.0.0\n"), 0o644, mt)
	outDir := models.AddDir("/out", 0o755, mt)
	if v.Symbolic() {
		v.Store("yaml.fill", func(t any) error {
			c := t.(*nfpm.Config)
			c.Name, c.Arch, c.Version = "n", "amd64", "1.0.0"
			return nil
		})
		v.Store("semver.next", errStubPackage)
	}
	fail := v.NondetBool("package.fails")
	nfpm.RegisterPackager("stub", verifCLIStub{fail: fail})
	nfpm.RegisterPackager("stb2", verifCLIStub2{})
	packager := []string{"", "stub"}[v.NondetChoice("packager", 2)]
	kind := v.NondetChoice("target", 5)
	target, want := "", ""
	wantContent := "partial"
	switch kind {
	case 4: // a file named after ANOTHER registered format
		target = outDir + "/x.stb2"
		want = target
		if packager == "" {
			wantContent = "other" // inferred from the extension
			fail = false
		}
	case 0: // existing directory
		target, want = outDir, outDir+"/conv.stub"
	case 1: // a file with the packager's extension
		target = outDir + "/x.stub"
		want = target
	case 2: // a file without extension
		target = outDir + "/pkgfile"
		want = target
	case 3: // empty: conventional name in the current directory
		return // would write into the process's working directory; covered symbolically by case 0's join logic
	}
	// the target may already exist and hold more bytes than the new package (a previous build)
	pre := v.NondetBool("target.preexists")
	old := bytes.Repeat([]byte{0xAA}, 40)
	if pre {
		models.AddFile("/out"+want[len(outDir):], old, 0o644, mt)
	}
	err := doPackage(cfgPath, target, packager)
	v.Reach("C15.cli.ran")
	if packager == "" && (kind == 0 || kind == 2) {
		v.Assert(errors.Is(err, errInsufficientParams), "cli-packager-required-when-not-inferable")
		if pre { // refused before the target is touched: what was there is still there
			v.Assert(bytes.Equal(models.FileContent(want), old), "cli-nothing-written-on-early-failure")
		} else {
			v.Assert(!models.Exists(want), "cli-nothing-written-on-early-failure")
		}
		return
	}
	if fail {
		v.Assert(err != nil, "cli-package-error-is-returned")
		v.Assert(!models.Exists(want), "cli-no-file-left-after-failed-packaging")
		return
	}
	v.Assert(err == nil, "cli-succeeds")
	v.Assert(models.Exists(want) && string(models.FileContent(want)) == wantContent, "cli-writes-exactly-the-requested-target")
}

// Verif_C06_CLI: the command-line clause of C06 (non-nil error, no file left at the target) is the failing branch of the CLI harness.
func Verif_C06_CLI() { Verif_C15_CLITarget() }

// Verif_C17_RequiredKeys: the schema generator marks a key required when its
// json tag has no omitempty. Only the keys the documentation calls mandatory
// (name, arch, version; dst of a contents entry) may be required: every other
// key may be absent from a configuration that the parser accepts and the
// packagers build (a dir or ghost entry has no src, for instance).
func Verif_C17_RequiredKeys() {
	v.Reach("C17.required.ran")
	mandatory := map[string][]string{"Info": {"name", "arch", "version"}, "Content": {"dst"}}
	ok := true
	for st, keys := range v.SchemaRequired {
		for _, k := range keys {
			allowed := false
			for _, m := range mandatory[st] {
				if m == k {
					allowed = true
				}
			}
			if !allowed {
				ok = false
				v.Observe("required.but.optional", st+"."+k)
			}
		}
	}
	v.Assert(ok, "schema-requires-only-the-documented-mandatory-keys")
}
