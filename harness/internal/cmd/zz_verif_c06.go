//go:build verif

package cmd

import (
	"bytes"
	"errors"
	"io"
	"time"

	"github.com/goreleaser/nfpm/v2"
	"github.com/goreleaser/nfpm/v2/files"
	v "github.com/goreleaser/nfpm/v2/internal/zzverif"
	"github.com/goreleaser/nfpm/v2/internal/zzverif/models"
	"github.com/goreleaser/nfpm/v2/internal/zzverif/scen"
)

// verifWriteFaults: at every write that reaches the caller's writer the solver
// may inject a failure (complete, or after half of the bytes). Whatever write
// fails, Package must return a non-nil error.
func verifWriteFaults(format string, signed bool) {
	sc := scen.Payload(scen.Options{Second: 3})
	if signed {
		fn := func(r io.Reader) ([]byte, error) { io.ReadAll(r); return []byte("SIG"), nil }
		sc.Info.Deb.Signature.SignFn = fn
		sc.Info.APK.Signature.SignFn = fn
		sc.Info.APK.Signature.KeyName = "k"
		sc.Info.RPM.Signature.SignFn = fn
	}
	w := &FaultWriter{Enabled: true}
	err := Packager(format).Package(sc.Info, w)
	v.Reach("C06.faults.ran")
	if w.Failed {
		v.Reach("C06.faults.injected")
		// The write sequence of the real compressors differs from the model's
		// (number and size of writes), so the index the solver chose need not
		// be the one that matters natively: the native replay sweeps every
		// write index of the real stream, complete and partial failure.
		sweepOK := true
		if !v.Symbolic() {
			clean := &FaultWriter{}
			if Packager(format).Package(sc.Info, clean) == nil {
				for k := 1; k <= clean.Writes; k++ {
					for _, partial := range []bool{false, true} {
						fw := &FaultWriter{ForceIdx: k, ForcePartial: partial}
						if e := Packager(format).Package(sc.Info, fw); fw.Failed && e == nil {
							sweepOK = false
						}
					}
				}
			}
		}
		v.Assert(err != nil && sweepOK, format+"-failed-write-is-reported")
	} else {
		v.Assert(err == nil, format+"-packages-without-fault")
	}
}

func Verif_C06_WriteFaults_Deb()       { verifWriteFaults("deb", false) }
func Verif_C06_WriteFaults_DebSigned() { verifWriteFaults("deb", true) }
func Verif_C06_WriteFaults_Rpm()       { verifWriteFaults("rpm", false) }
func Verif_C06_WriteFaults_RpmSigned() { verifWriteFaults("rpm", true) }
func Verif_C06_WriteFaults_Apk()       { verifWriteFaults("apk", false) }
func Verif_C06_WriteFaults_ApkSigned() { verifWriteFaults("apk", true) }
func Verif_C06_WriteFaults_Arch()      { verifWriteFaults("archlinux", false) }
func Verif_C06_WriteFaults_Ipk()       { verifWriteFaults("ipk", false) }

// verifMissingRef: every file a configuration refers to is removed, one at a time: Package must fail.
func verifMissingRef(format string) {
	sc := scen.Payload(scen.Options{Second: 3})
	mt := time.Unix(1500000000, 0).UTC()
	script := models.AddFile("/scripts/s", []byte("#!/bin/sh\n"), 0o755, mt)
	key := models.AddFile("/keys/k", []byte("not a key"), 0o600, mt)
	doc := models.AddFile("/src/README", []byte("r"), 0o644, mt)
	docType := []string{files.TypeRPMDoc, files.TypeRPMLicence, files.TypeRPMLicense, files.TypeRPMReadme}[v.NondetChoice("doctype", 4)]
	sc.Info.Contents = append(sc.Info.Contents, &files.Content{Source: doc, Destination: "/usr/share/doc/pkg/README", Type: docType})
	refs := []string{sc.Info.Contents[0].Source, sc.Info.Contents[1].Source, script, key, doc}
	switch v.NondetChoice("which.script", 3) {
	case 0:
		sc.Info.Scripts.PreInstall = script
	case 1:
		sc.Info.Scripts.PostRemove = script
	case 2:
		switch format {
		case "deb":
			sc.Info.Deb.Scripts.Config = script
		case "rpm":
			sc.Info.RPM.Scripts.Verify = script
		case "apk":
			sc.Info.APK.Scripts.PostUpgrade = script
		case "archlinux":
			sc.Info.ArchLinux.Scripts.PreUpgrade = script
		default:
			sc.Info.Scripts.PostInstall = script
		}
	}
	k := v.NondetChoice("missing", len(refs))
	if k == 3 {
		sc.Info.Deb.Signature.KeyFile = key
		sc.Info.RPM.Signature.KeyFile = key
		sc.Info.APK.Signature.KeyFile = key
		sc.Info.APK.Signature.KeyName = "k"
		if format == "archlinux" || format == "ipk" {
			return // no signing in these formats
		}
	}
	if k == 4 && format != "rpm" {
		return // documentation entries exist only in rpm packages
	}
	models.Remove(refs[k])
	var buf bytes.Buffer
	err := Packager(format).Package(sc.Info, &buf)
	v.Reach("C06.missing.ran")
	v.Assert(err != nil, format+"-missing-referenced-file-is-an-error")
}

func Verif_C06_Missing_Deb()  { verifMissingRef("deb") }
func Verif_C06_Missing_Rpm()  { verifMissingRef("rpm") }
func Verif_C06_Missing_Apk()  { verifMissingRef("apk") }
func Verif_C06_Missing_Arch() { verifMissingRef("archlinux") }
func Verif_C06_Missing_Ipk()  { verifMissingRef("ipk") }

// Verif_C06_InvalidSettings: each class of invalid setting makes Package fail.
func Verif_C06_InvalidSettings() {
	sc := scen.Payload(scen.Options{})
	info := sc.Info
	format := ""
	switch v.NondetChoice("class", 9) {
	case 8: // rpm epoch that does not fit the 32-bit header tag
		format = "rpm"
		info.Epoch = []string{"4294967296", "4294967297", "8589934591", "99999999999"}[v.NondetChoice("big.epoch", 4)]
	case 7: // archlinux package name of allowed characters that starts with '-' or '.'
		format = "archlinux"
		rest := v.NondetStringRange("name.rest", 0, 3)
		v.Assume(v.AllIn(rest, "a-z0-9._+-"))
		info.Name = []string{"-", "."}[v.NondetChoice("name.first", 2)] + rest
	case 0: // unknown deb compression
		format = "deb"
		c := v.NondetStringRange("compression", 1, 4)
		v.Assume(c != "gzip" && c != "xz" && c != "zstd" && c != "none")
		info.Deb.Compression = c
	case 1: // invalid deb signature type
		format = "deb"
		t := v.NondetStringRange("sigtype", 1, 6)
		v.Assume(t != "origin" && t != "maint" && t != "archive")
		info.Deb.Signature.Type = t
		info.Deb.Signature.SignFn = func(r io.Reader) ([]byte, error) { return []byte("SIG"), nil }
	case 2: // malformed rpm compression
		format = "rpm"
		info.RPM.Compression = []string{"bzip2", "gzip:x", "a:b:c", "xz:1", "zstd:nope"}[v.NondetChoice("rpmcomp", 5)]
	case 3: // non-numeric rpm epoch
		format = "rpm"
		e := v.NondetStringRange("epoch", 1, 3)
		v.Assume(!v.AllIn(e, "0-9"))
		v.Assume(v.AllIn(e, "0-9a-z"))
		info.Epoch = e
	case 4: // invalid archlinux package name
		format = "archlinux"
		n := v.NondetStringRange("name", 1, 3)
		v.Assume(!v.AllIn(n, "a-zA-Z0-9._+-"))
		info.Name = n
	case 5:
		format = "apk"
		p := v.NondetStringRange("platform", 1, 5)
		v.Assume(p != "linux")
		info.Platform = p
	case 6:
		format = "archlinux"
		p := v.NondetStringRange("platform", 1, 5)
		v.Assume(p != "linux")
		info.Platform = p
	}
	var buf bytes.Buffer
	err := Packager(format).Package(info, &buf)
	v.Reach("C06.invalid.ran")
	v.Assert(err != nil, "invalid-setting-is-an-error")
}

var errSigner = errors.New("zzverif: signer failed")

// verifSignFailure: a failing sign callback makes Package fail with an error
// that is identifiable as a signing failure and still wraps the signer's error.
func verifSignFailure(format string) {
	sc := scen.Payload(scen.Options{})
	// the signer's own error: a plain one, or one that wraps a signing failure of
	// its own below its identifying error (a callback built on nfpm's signer)
	var signerErr error = errSigner
	if v.NondetBool("signer.error.wraps.a.signing.failure") {
		signerErr = &verifRemoteError{inner: &nfpm.ErrSigningFailure{Err: errors.New("inner")}}
	}
	fn := func(r io.Reader) ([]byte, error) { return nil, signerErr }
	sc.Info.Deb.Signature.SignFn = fn
	if format == "deb" && v.NondetBool("dpkg-sig") {
		sc.Info.Deb.Signature.Method = "dpkg-sig"
	}
	sc.Info.APK.Signature.SignFn = fn
	sc.Info.APK.Signature.KeyName = "k"
	sc.Info.RPM.Signature.SignFn = fn
	var buf bytes.Buffer
	err := Packager(format).Package(sc.Info, &buf)
	v.Reach("C10.signfail.ran")
	v.Assert(err != nil, format+"-signer-failure-is-an-error")
	if err == nil {
		return
	}
	var sf *nfpm.ErrSigningFailure
	v.Assert(errors.As(err, &sf), format+"-signer-failure-is-identifiable-as-signing-failure")
	v.Assert(errors.Is(err, signerErr), "signing-failure-wraps-signer-error")
}

// verifRemoteError is a signer's own error type with something wrapped below it.
type verifRemoteError struct{ inner error }

func (e *verifRemoteError) Error() string { return "remote signer: " + e.inner.Error() }
func (e *verifRemoteError) Unwrap() error { return e.inner }

func Verif_C10_SignFailure_Deb() { verifSignFailure("deb") }
func Verif_C10_SignFailure_Rpm() { verifSignFailure("rpm") }
func Verif_C10_SignFailure_Apk() { verifSignFailure("apk") }
