//go:build verif

package cmd

import (
	"bytes"
	"strconv"
	"time"

	"github.com/goreleaser/nfpm/v2"
	"github.com/goreleaser/nfpm/v2/files"
	v "github.com/goreleaser/nfpm/v2/internal/zzverif"
	"github.com/goreleaser/nfpm/v2/internal/zzverif/models"
)

// verifInstalledSizeMixed: Installed-Size is the KiB figure of the bytes of
// the regular files shipped, whatever other kinds of entries (symlink,
// declared and implied directories) lie between them in the payload order, and
// whichever side of a KiB boundary the sum falls on.
func verifInstalledSizeMixed(format string) {
	mt := time.Unix(1700000000, 0).UTC()
	s1 := []int{300, 700, 1500}[v.NondetChoice("first.file.size", 3)]
	s2 := []int{0, 600}[v.NondetChoice("second.file.size", 2)]
	info := &nfpm.Info{Name: "pkg", Arch: "amd64", Platform: "linux", Version: "1.0.0", Description: "d", Maintainer: "m", MTime: mt}
	info.Umask = 0o022
	info.Contents = files.Contents{
		{Source: models.AddFile("/src/a.bin", bytes.Repeat([]byte("a"), s1), 0o644, mt), Destination: "/opt/demo/a.bin"},
		{Source: "a.bin", Destination: "/opt/demo/b.lnk", Type: files.TypeSymlink},
		{Destination: "/opt/demo/c", Type: files.TypeDir},
	}
	if s2 > 0 {
		info.Contents = append(info.Contents, &files.Content{Source: models.AddFile("/src/d.bin", bytes.Repeat([]byte("d"), s2), 0o644, mt), Destination: "/opt/demo/d.bin"})
	}
	var buf bytes.Buffer
	err := Packager(format).Package(info, &buf)
	v.Reach("C03." + format + ".mixed.ran")
	v.Assert(err == nil, format+"-packages")
	if err != nil {
		return
	}
	vw, ok := Decode(format, buf.Bytes())
	ctl := models.Find(vw.Control, "./control")
	v.Assert(ok && ctl != nil, format+"-control-present")
	if !ok || ctl == nil {
		return
	}
	kib := (s1 + s2) / 1024
	sz, has := v.Field822(string(ctl.Data), "Installed-Size")
	if format == "ipk" && kib == 0 {
		v.Assert(!has, "ipk-installed-size-omitted-when-zero-kib")
		return
	}
	v.Assert(has && sz == strconv.Itoa(kib), format+"-installed-size-is-the-kib-of-the-regular-file-bytes")
}

func Verif_C03_InstalledSizeMixed_Deb() { verifInstalledSizeMixed("deb") }
func Verif_C03_InstalledSizeMixed_Ipk() { verifInstalledSizeMixed("ipk") }
