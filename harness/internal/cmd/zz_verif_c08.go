//go:build verif

package cmd

import (
	"bytes"
	"time"

	"github.com/google/rpmpack"
	"github.com/goreleaser/nfpm/v2"
	"github.com/goreleaser/nfpm/v2/files"
	v "github.com/goreleaser/nfpm/v2/internal/zzverif"
	"github.com/goreleaser/nfpm/v2/internal/zzverif/models"
)

// Verif_C08_RpmSharedSource: one source file listed at several destinations
// with different entry types: every destination carries exactly the flag of
// ITS entry (and the bytes of the source).
func Verif_C08_RpmSharedSource() {
	mt := time.Unix(1700000000, 0).UTC()
	src := models.AddFile("/src/shared", []byte("S"), 0o644, mt)
	info := &nfpm.Info{Name: "pkg", Arch: "amd64", Platform: "linux", Version: "1.0.0", Description: "d", Maintainer: "m", MTime: mt}
	info.Umask = 0o022
	info.RPM.BuildHost = "host"
	types := []string{files.TypeConfigNoReplace, files.TypeFile, files.TypeRPMLicense, files.TypeConfig, files.TypeRPMDoc}
	t1 := types[v.NondetChoice("first.type", len(types))]
	t2 := types[v.NondetChoice("second.type", len(types))]
	info.Contents = files.Contents{
		{Source: src, Destination: "/a/one", Type: t1},
		{Source: src, Destination: "/b/two", Type: t2},
	}
	var buf bytes.Buffer
	err := Packager("rpm").Package(info, &buf)
	v.Reach("C08.shared.ran")
	v.Assert(err == nil, "rpm-packages")
	if err != nil {
		return
	}
	vw, ok := Decode("rpm", buf.Bytes())
	v.Assert(ok, "rpm-decodes")
	if !ok {
		return
	}
	flag := func(t string) uint32 {
		switch t {
		case files.TypeConfig:
			return uint32(rpmpack.ConfigFile)
		case files.TypeConfigNoReplace:
			return uint32(rpmpack.ConfigFile | rpmpack.NoReplaceFile)
		case files.TypeRPMLicense:
			return uint32(rpmpack.LicenceFile)
		case files.TypeRPMDoc:
			return uint32(rpmpack.DocFile)
		}
		return uint32(rpmpack.GenericFile)
	}
	okFlags := true
	for _, f := range vw.Rpm.Files {
		if f.Name == "/a/one" && (f.Flags != flag(t1) || !bytes.Equal(f.Body, []byte("S"))) {
			okFlags = false
		}
		if f.Name == "/b/two" && (f.Flags != flag(t2) || !bytes.Equal(f.Body, []byte("S"))) {
			okFlags = false
		}
	}
	v.Assert(okFlags && len(vw.Rpm.Files) == 2, "rpm-each-destination-carries-the-flag-of-its-own-entry")
}
