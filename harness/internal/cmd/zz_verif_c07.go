//go:build verif

package cmd

import (
	"bytes"
	"fmt"
	"runtime"
	"strconv"
	"time"

	"github.com/goreleaser/nfpm/v2"
	"github.com/goreleaser/nfpm/v2/files"
	v "github.com/goreleaser/nfpm/v2/internal/zzverif"
	"github.com/goreleaser/nfpm/v2/internal/zzverif/models"
	"github.com/goreleaser/nfpm/v2/internal/zzverif/scen"
)

// verifClock: with the package mtime fixed and the rpm build host set, every
// timestamp in the package is the configured mtime, an explicit entry mtime or
// a source's on-disk mtime, and no output byte is a function of time.Now() or
// of the host name (both are fresh symbolic values in this run).
func verifClock(format string) {
	// quick: only the package mtime is symbolic; thorough: source and entry mtimes too
	sc := scen.Payload(scen.Options{SymPkgTime: true, SymTimes: v.Thorough(), Second: 3})
	if v.NondetBool("pkg.mtime.is.the.epoch") {
		// SOURCE_DATE_EPOCH=0: a set, non-zero time.Time whose Unix() is 0
		sc.MTime = time.Unix(0, 0).UTC()
		sc.Info.MTime = sc.MTime
	}
	models.Hostname = v.NondetString("hostname", 2)
	smt := time.Unix(1400000000, 0).UTC()
	sc.Info.Scripts.PostInstall = models.AddFile("/scripts/post", []byte("x"), 0o755, smt)
	if v.NondetBool("every.optional.member") {
		// every optional control member / scriptlet a format can carry: each is
		// written by its own piece of code with its own timestamp
		extra := models.AddFile("/scripts/extra", []byte("y"), 0o755, smt)
		sc.Info.Scripts.PreRemove = extra
		sc.Info.Deb.Scripts.Rules, sc.Info.Deb.Scripts.Templates, sc.Info.Deb.Scripts.Config = extra, extra, extra
		sc.Info.Deb.Triggers.Interest = []string{"t"}
		sc.Info.APK.Scripts.PreUpgrade, sc.Info.APK.Scripts.PostUpgrade = extra, extra
		sc.Info.ArchLinux.Scripts.PreUpgrade, sc.Info.ArchLinux.Scripts.PostUpgrade = extra, extra
		sc.Info.RPM.Scripts.PreTrans, sc.Info.RPM.Scripts.PostTrans, sc.Info.RPM.Scripts.Verify = extra, extra, extra
		if format == "deb" {
			sc.Info.Changelog = models.AddFile("/src/changelog.yaml", []byte("- semver: 1.0.0\n"), 0o644, smt)
		}
	}
	pristine := verifCloneInfo(sc.Info) // Package consumes the settings it is given
	var buf bytes.Buffer
	err := Packager(format).Package(sc.Info, &buf)
	v.Reach("C07.clock.ran")
	v.Assert(err == nil, format+"-packages")
	if err != nil {
		return
	}
	out := buf.Bytes()
	vw, ok := Decode(format, out)
	v.Assert(ok, format+"-decodes")
	if !ok {
		return
	}
	allowed := []int64{sc.MTime.Unix(), smt.Unix(), sc.Info.MTime.Unix()}
	for _, w := range sc.Wants {
		allowed = append(allowed, w.MTime.Unix())
	}
	for _, n := range []string{"/src/f1", "/src/f2"} {
		if nd := models.StatTime(n); nd != 0 {
			allowed = append(allowed, nd)
		}
	}
	okAll, okCtl := true, true
	for _, s := range vw.Stamps {
		hit := false
		for _, a := range allowed {
			if s.Text != "" {
				if s.Text == strconv.FormatInt(a, 10) {
					hit = true
				}
			} else if s.Unix == a {
				hit = true
			}
		}
		if !hit {
			if format == "apk" && len(s.Where) > 8 && s.Where[:8] == "control:" && s.Unix == 0 {
				okCtl = false
			} else {
				okAll = false
			}
		}
	}
	v.Assert(okAll, format+"-every-timestamp-is-configured-or-a-source-mtime")
	if format == "apk" {
		v.Assert(okCtl, "apk-control-member-mtime-is-configured")
	}
	// symbolic only (a native run cannot observe it; the timestamp clause above is its replayable face)
	v.Assert(!v.DependsOn(out, "$now"), format+"-output-independent-of-the-clock")
	v.Assert(!v.DependsOn(out, "hostname"), format+"-output-independent-of-the-host-name")
	// the number of CPUs (runtime.GOMAXPROCS / NumCPU: fresh symbolic values) must
	// not shape the output, e.g. through the block size of a parallel compressor.
	// Natively the same settings with a multi-MiB payload are built under two CPU
	// counts (block boundaries only show beyond one block).
	cpuOK := true
	if !v.Symbolic() {
		big := make([]byte, 3<<20)
		x := uint32(12345)
		for i := range big {
			x = x*1664525 + 1013904223
			big[i] = byte(x >> 24)
		}
		pristine.Contents = append(pristine.Contents, &files.Content{Source: models.AddFile("/src/big.bin", big, 0o644, smt), Destination: "/opt/big.bin"})
		var b1, b4 bytes.Buffer
		prev := runtime.GOMAXPROCS(1)
		e1 := Packager(format).Package(verifCloneInfo(pristine), &b1)
		runtime.GOMAXPROCS(4)
		e4 := Packager(format).Package(verifCloneInfo(pristine), &b4)
		runtime.GOMAXPROCS(prev)
		if format != "rpm" && (e1 != nil || e4 != nil || !bytes.Equal(b1.Bytes(), b4.Bytes())) {
			cpuOK = false
			v.Observe("cpu.sweep", fmt.Sprint(e1, e4, b1.Len(), b4.Len()))
		}
	}
	v.Assert(!v.DependsOn(out, "$cpus") && cpuOK, format+"-output-independent-of-the-cpu-count")
}

func Verif_C07_Clock_Deb()  { verifClock("deb") }
func Verif_C07_Clock_Rpm()  { verifClock("rpm") }
func Verif_C07_Clock_Apk()  { verifClock("apk") }
func Verif_C07_Clock_Arch() { verifClock("archlinux") }
func Verif_C07_Clock_Ipk()  { verifClock("ipk") }

func verifOrderInfo() *scen.Scenario {
	sc := scen.Payload(scen.Options{Second: 3, NoInfoFork: true})
	mt := time.Unix(1400000000, 0).UTC()
	a := models.AddFile("/scripts/a", []byte("A"), 0o755, mt)
	b := models.AddFile("/scripts/b", []byte("B"), 0o755, mt)
	c := models.AddFile("/scripts/c", []byte("C"), 0o755, mt)
	sc.Info.Scripts.PreInstall, sc.Info.Scripts.PostInstall, sc.Info.Scripts.PostRemove = a, b, c
	sc.Info.Deb.Fields = map[string]string{"Bugs": "x", "Alpha": "y"}
	sc.Info.IPK.Fields = map[string]string{"Source": "x", "Alpha": "y"}
	sc.Info.Homepage, sc.Info.License = "h", "MIT"
	sc.Info.Contents = append(sc.Info.Contents, &files.Content{Destination: "/aa/dir", Type: files.TypeDir})
	return sc
}

// verifMapOrder: the package does not depend on the iteration order of any Go
// map: every `range` over a map runs under a nondeterministically permuted
// order (all n! orders up to 4 entries, rotations and reversal above) and the
// bytes must equal those of the insertion-order run.
func verifMapOrder(format string) {
	mt := time.Unix(1400000000, 0).UTC()
	models.AddFile("/src/f1", []byte("AB"), 0o644, mt) // same sources for both runs
	v.PermuteMaps(false)
	var ref bytes.Buffer
	err1 := Packager(format).Package(verifOrderInfo().Info, &ref)
	vw1, _ := Decode(format, ref.Bytes())
	// Symbolically the second run explores every permuted order.  Natively
	// PermuteMaps is a no-op and Go randomises the start of each map range, so
	// the replay repeats the second run until an order differs (a 2-entry map
	// swaps with probability 1/8 per run: 120 runs miss with p < 2e-7).
	verifTries := 1
	if !v.Symbolic() {
		verifTries = 120
	}
	var got bytes.Buffer
	var err2 error
	for i := 0; i < verifTries; i++ {
		got.Reset()
		v.PermuteMaps(true)
		err2 = Packager(format).Package(verifOrderInfo().Info, &got)
		v.PermuteMaps(false)
		if err2 != nil || !bytes.Equal(ref.Bytes(), got.Bytes()) {
			break
		}
	}
	vw2, _ := Decode(format, got.Bytes())
	v.Reach("C07.order.ran")
	v.Assert(err1 == nil && err2 == nil, format+"-packages")
	if format == "rpm" {
		// rpm bytes are opaque in the model: compare what is handed to rpmpack
		same := len(vw1.Rpm.Files) == len(vw2.Rpm.Files) && vw1.Rpm.Prein == vw2.Rpm.Prein && vw1.Rpm.Postin == vw2.Rpm.Postin && vw1.Rpm.Postun == vw2.Rpm.Postun
		if same {
			for i := range vw1.Rpm.Files {
				a, b := vw1.Rpm.Files[i], vw2.Rpm.Files[i]
				if a.Name != b.Name || a.Mode != b.Mode || a.MTime != b.MTime || a.Owner != b.Owner || !bytes.Equal(a.Body, b.Body) {
					same = false
				}
			}
		}
		v.Assert(same, "rpm-content-independent-of-map-iteration-order")
		return
	}
	v.Assert(bytes.Equal(ref.Bytes(), got.Bytes()), format+"-bytes-independent-of-map-iteration-order")
}

func Verif_C07_MapOrder_Deb()  { verifMapOrder("deb") }
func Verif_C07_MapOrder_Rpm()  { verifMapOrder("rpm") }
func Verif_C07_MapOrder_Apk()  { verifMapOrder("apk") }
func Verif_C07_MapOrder_Arch() { verifMapOrder("archlinux") }
func Verif_C07_MapOrder_Ipk()  { verifMapOrder("ipk") }

// verifCloneInfo copies settings deeply enough for an independent packaging:
// the struct, the contents list and each entry with its file_info.
func verifCloneInfo(info *nfpm.Info) *nfpm.Info {
	cp := *info
	cp.Contents = nil
	for _, c := range info.Contents {
		cc := *c
		if c.FileInfo != nil {
			fi := *c.FileInfo
			cc.FileInfo = &fi
		}
		cp.Contents = append(cp.Contents, &cc)
	}
	return &cp
}
