//go:build verif

package cmd

import (
	"bytes"
	"crypto/md5"
	"crypto/sha1"
	"errors"
	"io"
	"strconv"

	"github.com/goreleaser/nfpm/v2"
	v "github.com/goreleaser/nfpm/v2/internal/zzverif"
	"github.com/goreleaser/nfpm/v2/internal/zzverif/models"
	"github.com/goreleaser/nfpm/v2/internal/zzverif/scen"
)

var verifDebComp = []string{"", "xz", "zstd", "none"}

// Verif_C10_DebSign: the sign callback of a deb receives exactly the three
// members as stored, in order; the signature is stored verbatim as _gpg<type>.
func Verif_C10_DebSign() {
	sc := scen.Payload(scen.Options{SymContent: true})
	sig := v.NondetBytes("sig", 3)
	var got []byte
	calls := 0
	sc.Info.Deb.Signature.SignFn = func(r io.Reader) ([]byte, error) {
		b, _ := io.ReadAll(r)
		got = b
		calls++
		return sig, nil
	}
	if v.NondetBool("key.file.configured.as.well") {
		sc.Info.Deb.Signature.KeyFile = models.AddFile("/keys/deb.key", []byte("not a key"), 0o600, sc.MTime)
	}
	ti := v.NondetChoice("sigtype", 5)
	typ := []string{"", "origin", "maint", "archive", ""}[ti]
	if ti == 4 {
		// any other word is an invalid debsign signature type
		typ = v.NondetStringRange("sigtype.word", 1, 6)
		v.Assume(v.AllIn(typ, "a-zA-Z"))
		v.Assume(typ != "origin" && typ != "maint")
	}
	sc.Info.Deb.Signature.Type = typ
	sc.Info.Deb.Compression = verifDebComp[v.NondetChoice("compression", len(verifDebComp))]
	dpkgsig := v.NondetBool("dpkg-sig")
	if dpkgsig {
		sc.Info.Deb.Signature.Method = "dpkg-sig"
	}
	var buf bytes.Buffer
	err := Packager("deb").Package(sc.Info, &buf)
	v.Reach("C10.deb.ran")
	if ti == 4 && !dpkgsig {
		// debsign with a type that is not origin/maint/archive: no package, and the
		// error is a signing failure that wraps the invalid-type error
		var sf *nfpm.ErrSigningFailure
		v.Assert(err != nil && errors.As(err, &sf), "deb-invalid-signature-type-is-a-signing-failure")
		return
	}
	v.Assert(err == nil, "deb-signed-package-builds")
	if err != nil {
		return
	}
	vw, ok := Decode("deb", buf.Bytes())
	v.Assert(ok && len(vw.Segs) == 4, "deb-signed-package-has-four-members")
	if !ok || len(vw.Segs) != 4 {
		return
	}
	v.Assert(calls == 1, "deb-signer-called-once")
	v.Assert(bytes.Equal(vw.Segs[3], sig), "deb-signature-stored-verbatim")
	if !dpkgsig {
		want := "origin"
		if typ != "" {
			want = typ
		}
		v.Assert(vw.Names[3] == "_gpg"+want, "deb-signature-member-name")
		all := append(append(append([]byte{}, vw.Segs[0]...), vw.Segs[1]...), vw.Segs[2]...)
		v.Assert(bytes.Equal(got, all), "deb-signer-input-is-the-three-members-as-stored")
		return
	}
	// dpkg-sig: the signed manifest lists md5, sha1, size and name of the stored members
	lines := v.Lines(string(got))
	var files []string
	for _, l := range lines {
		if len(l) > 0 && l[0] == '\t' {
			files = append(files, l[1:])
		}
	}
	v.Assert(len(files) == 3, "deb-dpkgsig-manifest-has-three-file-lines")
	if len(files) != 3 {
		return
	}
	for i := 0; i < 3; i++ {
		m5 := md5.Sum(vw.Segs[i])
		s1 := sha1.Sum(vw.Segs[i])
		digests := v.Hex(m5[:]) + " " + v.Hex(s1[:]) + " " + strconv.Itoa(len(vw.Segs[i])) + " "
		v.Assert(v.HasPrefix(files[i], digests), "deb-dpkgsig-manifest-digests-match-stored-members")
		v.Assert(files[i][len(digests):] == vw.Names[i] || !v.HasPrefix(files[i], digests), "deb-dpkgsig-manifest-names-the-stored-members")
	}
}

// Verif_C10_ApkSign: the apk sign callback receives the SHA-1 of the control
// segment as shipped; the signature is the first segment, named after the key.
func Verif_C10_ApkSign() {
	sc := scen.Payload(scen.Options{SymContent: true})
	sig := v.NondetBytes("sig", 3)
	var got []byte
	sc.Info.APK.Signature.SignFn = func(r io.Reader) ([]byte, error) {
		b, _ := io.ReadAll(r)
		got = b
		return sig, nil
	}
	if v.NondetBool("key.file.configured.as.well") {
		// a configuration that names a key file while the caller supplies a
		// callback: the callback is what signs (the file is not even read)
		sc.Info.APK.Signature.KeyFile = models.AddFile("/keys/apk.key", []byte("not a key"), 0o600, sc.MTime)
		sc.Info.Deb.Signature.KeyFile, sc.Info.RPM.Signature.KeyFile = sc.Info.APK.Signature.KeyFile, sc.Info.APK.Signature.KeyFile
	}
	wantName := ""
	switch v.NondetChoice("keyname", 4) {
	case 3:
		sc.Info.APK.Signature.KeyName = "ci.pub" // ends in .pub but not in .rsa.pub
		wantName = ".SIGN.RSA.ci.pub.rsa.pub"
	case 0:
		sc.Info.APK.Signature.KeyName = "origin"
		wantName = ".SIGN.RSA.origin.rsa.pub"
	case 1:
		sc.Info.APK.Signature.KeyName = "k.rsa.pub"
		wantName = ".SIGN.RSA.k.rsa.pub"
	case 2:
		sc.Info.Maintainer = "Joe <joe@example.org>"
		wantName = ".SIGN.RSA.joe@example.org.rsa.pub"
	}
	var buf bytes.Buffer
	err := Packager("apk").Package(sc.Info, &buf)
	v.Reach("C10.apk.ran")
	v.Assert(err == nil, "apk-signed-package-builds")
	if err != nil {
		return
	}
	vw, ok := Decode("apk", buf.Bytes())
	v.Assert(ok && len(vw.Segs) == 3, "apk-signed-package-has-three-segments")
	if !ok || len(vw.Segs) != 3 {
		return
	}
	v.Assert(vw.Names[0] == "cut" && vw.Names[1] == "cut" && vw.Names[2] == "data", "apk-signature-and-control-are-cut-segments")
	d := sha1.Sum(vw.Segs[1])
	v.Assert(bytes.Equal(got, d[:]), "apk-signer-input-is-sha1-of-control-segment-as-shipped")
	v.Assert(len(vw.Control) >= 2 && vw.Control[0].Name == wantName && bytes.Equal(vw.Control[0].Data, sig), "apk-signature-stored-first-under-key-name")
}

// Verif_C10_RpmSign: the adapter hands rpmpack's bytes unchanged to the callback: header first, then header+payload.
func Verif_C10_RpmSign() {
	sc := scen.Payload(scen.Options{})
	var inputs [][]byte
	if v.NondetBool("key.file.configured.as.well") {
		sc.Info.RPM.Signature.KeyFile = models.AddFile("/keys/rpm.key", []byte("not a key"), 0o600, sc.MTime)
	}
	sc.Info.RPM.Signature.SignFn = func(r io.Reader) ([]byte, error) {
		b, _ := io.ReadAll(r)
		inputs = append(inputs, b)
		return []byte("SIG"), nil
	}
	var buf bytes.Buffer
	err := Packager("rpm").Package(sc.Info, &buf)
	v.Reach("C10.rpm.ran")
	v.Assert(err == nil, "rpm-signed-package-builds")
	v.Assert(len(inputs) == 2, "rpm-signer-called-for-header-and-header-plus-payload")
	if len(inputs) == 2 {
		v.Assert(len(inputs[0]) > 0 && len(inputs[1]) > len(inputs[0]) && bytes.Equal(inputs[1][:len(inputs[0])], inputs[0]), "rpm-second-signed-blob-extends-the-header-blob")
	}
}
