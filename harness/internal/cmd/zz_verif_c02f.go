//go:build verif

package cmd

import (
	"bytes"

	v "github.com/goreleaser/nfpm/v2/internal/zzverif"
	"github.com/goreleaser/nfpm/v2/internal/zzverif/models"
	"github.com/goreleaser/nfpm/v2/internal/zzverif/scen"
)

// Verif_C02_D_OtherDescriptions: a two-line description in the formats that
// have no deb822 folding: rpm keeps it whole and takes the first line as the
// summary; archlinux flattens it to one line; apk keeps the first line as the
// value of pkgdesc and the fields after it survive.
func Verif_C02_D_OtherDescriptions() {
	m := scen.NewMeta()
	l1, l2 := verifExtraWord("desc.line1", 2), verifExtraWord("desc.line2", 2)
	m.Info.Description = l1 + "\n" + l2
	format := []string{"rpm", "archlinux", "apk"}[v.NondetChoice("format", 3)]
	var buf bytes.Buffer
	err := Packager(format).Package(m.Info, &buf)
	v.Reach("C02.otherdesc.ran")
	v.Assert(err == nil, format+"-packages")
	if err != nil {
		return
	}
	vw, ok := Decode(format, buf.Bytes())
	v.Assert(ok, format+"-decodes")
	if !ok {
		return
	}
	switch format {
	case "rpm":
		v.Assert(vw.Rpm.Summary == l1, "rpm-summary-is-the-first-line")
		v.Assert(vw.Rpm.Description == l1+"\n"+l2, "rpm-description-keeps-every-line")
	case "archlinux":
		pk := models.Find(vw.Control, ".PKGINFO")
		v.Assert(pk != nil, "arch-pkginfo-present")
		if pk != nil {
			verifKV1(string(pk.Data), "pkgdesc", l1+" "+l2, "arch-description-flattened-to-one-line")
			verifKV1(string(pk.Data), "url", m.Homepage, "arch-fields-after-description-survive")
		}
	case "apk":
		pk := models.Find(vw.Control, ".PKGINFO")
		v.Assert(pk != nil, "apk-pkginfo-present")
		if pk != nil {
			verifKV1(string(pk.Data), "pkgdesc", l1, "apk-synopsis-is-the-first-line")
			verifKV1(string(pk.Data), "url", m.Homepage, "apk-fields-after-description-survive")
		}
	}
}

// Verif_C02_F_Platform: the platform reaches the metadata: deb prefixes the
// architecture with a platform other than linux, rpm records it as the OS.
func Verif_C02_F_Platform() {
	m := scen.NewMeta()
	plat := []string{"linux", "darwin", "freebsd"}[v.NondetChoice("platform", 3)]
	m.Info.Platform = plat
	format := []string{"deb", "rpm"}[v.NondetChoice("format", 2)]
	var buf bytes.Buffer
	err := Packager(format).Package(m.Info, &buf)
	v.Reach("C02.platform.ran")
	v.Assert(err == nil, format+"-packages")
	if err != nil {
		return
	}
	vw, ok := Decode(format, buf.Bytes())
	v.Assert(ok, format+"-decodes")
	if !ok {
		return
	}
	if format == "rpm" {
		v.Assert(vw.Rpm.OS == plat && vw.Rpm.Arch == "x86_64", "rpm-os-is-the-platform")
		return
	}
	ctl := models.Find(vw.Control, "./control")
	v.Assert(ctl != nil, "deb-control-present")
	if ctl == nil {
		return
	}
	want := "amd64"
	if plat != "linux" {
		want = plat + "-amd64"
	}
	verifField(string(ctl.Data), "Architecture", want, "deb-architecture-carries-a-non-linux-platform")
}
