//go:build verif

package cmd

import (
	"bytes"
	"strconv"

	"github.com/goreleaser/nfpm/v2"
	v "github.com/goreleaser/nfpm/v2/internal/zzverif"
	"github.com/goreleaser/nfpm/v2/internal/zzverif/models"
	"github.com/goreleaser/nfpm/v2/internal/zzverif/scen"
)

func verifExtraWord(name string, n int) string {
	s := v.NondetStringN(name, n)
	v.Assume(v.AllIn(s, "a-z0-9"))
	return s
}

// verifAbsent: no field of that name in the control text.
func verifAbsent(text, key, id string) {
	_, ok := v.Field822(text, key)
	v.Assert(!ok, id)
}

// Verif_C02_E_DebExtras: the deb-specific extras appear iff configured and
// with the configured values: custom fields (empty value = not configured),
// the triggers control member (one line per trigger, under its directive, in
// the order of deb-triggers(5)), and the optional standard fields.
func Verif_C02_E_DebExtras() {
	m := scen.NewMeta()
	info := m.Info
	fBugs := ""
	if v.NondetBool("field.bugs.set") {
		fBugs = verifExtraWord("field.bugs", 2)
	}
	fX := verifExtraWord("field.x", 1)
	info.Deb.Fields = map[string]string{"Bugs": fBugs, "X-Custom": fX}
	// optional standard fields may be left out
	if v.NondetBool("license.empty") {
		info.License = ""
	}
	if v.NondetBool("homepage.empty") {
		info.Homepage = ""
	}
	var want string
	tA := verifExtraWord("trigger.a", 2)
	tB := verifExtraWord("trigger.b", 2)
	tC := verifExtraWord("trigger.c", 2)
	// none, each of the six directives alone (two names), or interest + activate-noawait
	kind := v.NondetChoice("trigger.kind", 8)
	tInterest, tActNo := kind == 1 || kind == 7, kind == 6 || kind == 7
	switch kind {
	case 2:
		info.Deb.Triggers.InterestAwait = []string{tA, tB}
		want = "interest-await " + tA + "\ninterest-await " + tB + "\n"
	case 3:
		info.Deb.Triggers.InterestNoAwait = []string{tA, tB}
		want = "interest-noawait " + tA + "\ninterest-noawait " + tB + "\n"
	case 4:
		info.Deb.Triggers.Activate = []string{tA, tB}
		want = "activate " + tA + "\nactivate " + tB + "\n"
	case 5:
		info.Deb.Triggers.ActivateAwait = []string{tA, tB}
		want = "activate-await " + tA + "\nactivate-await " + tB + "\n"
	}
	if tInterest {
		info.Deb.Triggers.Interest = []string{tA, tB}
		want += "interest " + tA + "\ninterest " + tB + "\n"
	}
	if tActNo {
		info.Deb.Triggers.ActivateNoAwait = []string{tC}
		want += "activate-noawait " + tC + "\n"
	}
	var buf bytes.Buffer
	err := Packager("deb").Package(info, &buf)
	v.Reach("C02.deb.extras.ran")
	v.Assert(err == nil, "deb-packages")
	if err != nil {
		return
	}
	vw, ok := Decode("deb", buf.Bytes())
	ctl := models.Find(vw.Control, "./control")
	v.Assert(ok && ctl != nil, "deb-control-present")
	if !ok || ctl == nil {
		return
	}
	t := string(ctl.Data)
	if fBugs != "" {
		verifField(t, "Bugs", fBugs, "deb-custom-field-with-its-value")
	} else {
		verifAbsent(t, "Bugs", "deb-custom-field-without-value-absent")
	}
	verifField(t, "X-Custom", fX, "deb-custom-field-with-its-value")
	if info.License == "" {
		verifAbsent(t, "License", "deb-empty-optional-field-absent")
	} else {
		verifField(t, "License", m.License, "deb-license")
	}
	if info.Homepage == "" {
		verifAbsent(t, "Homepage", "deb-empty-optional-field-absent")
	} else {
		verifField(t, "Homepage", m.Homepage, "deb-homepage")
	}
	// the custom fields must not have displaced a standard one
	verifField(t, "Package", m.Name, "deb-name")
	verifField(t, "Description", m.Desc, "deb-description")
	tr := models.Find(vw.Control, "./triggers")
	if kind != 0 {
		v.Assert(tr != nil && string(tr.Data) == want, "deb-triggers-member-lists-configured-triggers")
	} else {
		v.Assert(tr == nil, "deb-no-triggers-member-without-triggers")
	}
}

// Verif_C02_E_IpkExtras: ABIVersion, Alternatives (priority:link:target, in
// order), Auto-Installed, Essential, Tags and custom fields appear iff
// configured, with the configured values.
func Verif_C02_E_IpkExtras() {
	m := scen.NewMeta()
	info := m.Info
	abi := ""
	if v.NondetBool("abi.set") {
		abi = verifExtraWord("abi", 2)
	}
	info.IPK.ABIVersion = abi
	nAlt := v.NondetChoice("alternatives", 3)
	wantAlt := ""
	for i := 0; i < nAlt; i++ {
		prio := int(v.NondetU32("alt.prio."+strconv.Itoa(i)) % 1000)
		link := "/" + verifExtraWord("alt.link."+strconv.Itoa(i), 1)
		target := "/" + verifExtraWord("alt.target."+strconv.Itoa(i), 1)
		info.IPK.Alternatives = append(info.IPK.Alternatives, nfpm.IPKAlternative{Priority: prio, LinkName: link, Target: target})
		if i > 0 {
			wantAlt += ", "
		}
		wantAlt += strconv.Itoa(prio) + ":" + link + ":" + target
	}
	info.IPK.AutoInstalled = v.NondetBool("auto_installed")
	info.IPK.Essential = v.NondetBool("essential")
	var tags []string
	if v.NondetBool("tags.set") {
		tags = []string{verifExtraWord("tag.a", 2), verifExtraWord("tag.b", 1)}
		info.IPK.Tags = append([]string{}, tags...)
	}
	fSrc := ""
	if v.NondetBool("field.source.set") {
		fSrc = verifExtraWord("field.source", 2)
	}
	info.IPK.Fields = map[string]string{"Source": fSrc}
	var buf bytes.Buffer
	err := Packager("ipk").Package(info, &buf)
	v.Reach("C02.ipk.extras.ran")
	v.Assert(err == nil, "ipk-packages")
	if err != nil {
		return
	}
	vw, ok := Decode("ipk", buf.Bytes())
	ctl := models.Find(vw.Control, "./control")
	v.Assert(ok && ctl != nil, "ipk-control-present")
	if !ok || ctl == nil {
		return
	}
	t := string(ctl.Data)
	if abi != "" {
		verifField(t, "ABIVersion", abi, "ipk-abiversion")
	} else {
		verifAbsent(t, "ABIVersion", "ipk-unconfigured-extra-absent")
	}
	if nAlt > 0 {
		verifField(t, "Alternatives", wantAlt, "ipk-alternatives-in-order")
	} else {
		verifAbsent(t, "Alternatives", "ipk-unconfigured-extra-absent")
	}
	if info.IPK.AutoInstalled {
		verifField(t, "Auto-Installed", "yes", "ipk-auto-installed")
	} else {
		verifAbsent(t, "Auto-Installed", "ipk-unconfigured-extra-absent")
	}
	if info.IPK.Essential {
		verifField(t, "Essential", "yes", "ipk-essential")
	} else {
		verifAbsent(t, "Essential", "ipk-unconfigured-extra-absent")
	}
	if tags != nil {
		verifField(t, "Tags", scen.Joined(tags), "ipk-tags")
	} else {
		verifAbsent(t, "Tags", "ipk-unconfigured-extra-absent")
	}
	if fSrc != "" {
		verifField(t, "Source", fSrc, "ipk-custom-field-with-its-value")
	} else {
		verifAbsent(t, "Source", "ipk-custom-field-without-value-absent")
	}
	verifField(t, "Package", m.Name, "ipk-name")
	verifField(t, "Description", m.Desc, "ipk-description")
}
