//go:build verif

package cmd

import (
	"bytes"

	v "github.com/goreleaser/nfpm/v2/internal/zzverif"
	"github.com/goreleaser/nfpm/v2/internal/zzverif/models"
	"github.com/goreleaser/nfpm/v2/internal/zzverif/scen"
)

func verifSameList(a, b []string) bool {
	if len(a) != len(b) {
		return false
	}
	for i := range a {
		if a[i] != b[i] {
			return false
		}
	}
	return true
}

func verifField(text, key, want, id string) {
	got, ok := v.Field822(text, key)
	v.Assert(ok && got == want, id)
}

// Verif_C02_C_DebControl: every configured metadata value is in the deb control file under its own field.
func Verif_C02_C_DebControl() {
	m := scen.NewMeta()
	var buf bytes.Buffer
	err := Packager("deb").Package(m.Info, &buf)
	v.Reach("C02.deb.ran")
	v.Assert(err == nil, "deb-packages")
	if err != nil {
		return
	}
	vw, ok := Decode("deb", buf.Bytes())
	ctl := models.Find(vw.Control, "./control")
	v.Assert(ok && ctl != nil, "deb-control-present")
	if !ok || ctl == nil {
		return
	}
	t := string(ctl.Data)
	verifField(t, "Package", m.Name, "deb-name")
	verifField(t, "Version", "1.2.3-2", "deb-version")
	verifField(t, "Architecture", "amd64", "deb-architecture")
	verifField(t, "Maintainer", m.Maintainer, "deb-maintainer")
	verifField(t, "Section", m.Section, "deb-section")
	verifField(t, "Priority", m.Priority, "deb-priority")
	verifField(t, "Homepage", m.Homepage, "deb-homepage")
	verifField(t, "License", m.License, "deb-license")
	verifField(t, "Description", m.Desc, "deb-description")
	verifField(t, "Replaces", scen.Joined(m.Replaces), "deb-replaces")
	verifField(t, "Provides", scen.Joined(m.Provides), "deb-provides")
	verifField(t, "Depends", scen.Joined(m.Depends), "deb-depends")
	verifField(t, "Pre-Depends", scen.Joined(m.Predepends), "deb-predepends")
	verifField(t, "Recommends", scen.Joined(m.Recommends), "deb-recommends")
	verifField(t, "Suggests", scen.Joined(m.Suggests), "deb-suggests")
	verifField(t, "Conflicts", scen.Joined(m.Conflicts), "deb-conflicts")
	verifField(t, "Breaks", scen.Joined(m.Breaks), "deb-breaks")
}

// Verif_C02_C_IpkControl: the same for ipk (no Breaks field in the format).
func Verif_C02_C_IpkControl() {
	m := scen.NewMeta()
	var buf bytes.Buffer
	err := Packager("ipk").Package(m.Info, &buf)
	v.Reach("C02.ipk.ran")
	v.Assert(err == nil, "ipk-packages")
	if err != nil {
		return
	}
	vw, ok := Decode("ipk", buf.Bytes())
	ctl := models.Find(vw.Control, "./control")
	v.Assert(ok && ctl != nil, "ipk-control-present")
	if !ok || ctl == nil {
		return
	}
	t := string(ctl.Data)
	verifField(t, "Package", m.Name, "ipk-name")
	verifField(t, "Version", "1.2.3-2", "ipk-version")
	verifField(t, "Architecture", "x86_64", "ipk-architecture")
	verifField(t, "Maintainer", m.Maintainer, "ipk-maintainer")
	verifField(t, "Section", m.Section, "ipk-section")
	verifField(t, "Priority", m.Priority, "ipk-priority")
	verifField(t, "Homepage", m.Homepage, "ipk-homepage")
	verifField(t, "License", m.License, "ipk-license")
	verifField(t, "Vendor", m.Vendor, "ipk-vendor")
	verifField(t, "Description", m.Desc, "ipk-description")
	verifField(t, "Replaces", scen.Joined(m.Replaces), "ipk-replaces")
	verifField(t, "Provides", scen.Joined(m.Provides), "ipk-provides")
	verifField(t, "Depends", scen.Joined(m.Depends), "ipk-depends")
	verifField(t, "Pre-Depends", scen.Joined(m.Predepends), "ipk-predepends")
	verifField(t, "Recommends", scen.Joined(m.Recommends), "ipk-recommends")
	verifField(t, "Suggests", scen.Joined(m.Suggests), "ipk-suggests")
	verifField(t, "Conflicts", scen.Joined(m.Conflicts), "ipk-conflicts")
}

func verifKV1(text, key, want, id string) {
	got := v.KV(text, key)
	v.Assert(len(got) == 1 && got[0] == want, id)
}

// Verif_C02_C_ApkPkginfo: apk .PKGINFO states name, version, arch, description, url, maintainer, license and the relations apk has.
func Verif_C02_C_ApkPkginfo() {
	m := scen.NewMeta()
	var buf bytes.Buffer
	err := Packager("apk").Package(m.Info, &buf)
	v.Reach("C02.apk.ran")
	v.Assert(err == nil, "apk-packages")
	if err != nil {
		return
	}
	vw, ok := Decode("apk", buf.Bytes())
	pk := models.Find(vw.Control, ".PKGINFO")
	v.Assert(ok && pk != nil, "apk-pkginfo-present")
	if !ok || pk == nil {
		return
	}
	t := string(pk.Data)
	verifKV1(t, "pkgname", m.Name, "apk-name")
	verifKV1(t, "pkgver", "1.2.3-r2", "apk-version")
	verifKV1(t, "arch", "x86_64", "apk-architecture")
	verifKV1(t, "pkgdesc", m.Desc, "apk-description")
	verifKV1(t, "url", m.Homepage, "apk-homepage")
	verifKV1(t, "maintainer", m.Maintainer, "apk-maintainer")
	verifKV1(t, "license", m.License, "apk-license")
	v.Assert(verifSameList(v.KV(t, "replaces"), m.Replaces), "apk-replaces")
	v.Assert(verifSameList(v.KV(t, "provides"), m.Provides), "apk-provides")
	v.Assert(verifSameList(v.KV(t, "depend"), m.Depends), "apk-depends")
}

// Verif_C02_C_ArchPkginfo: the same for archlinux (.PKGINFO key = value lines).
func Verif_C02_C_ArchPkginfo() {
	m := scen.NewMeta()
	rel := []string{"2", "0", "10"}[v.NondetChoice("release", 3)] // a numeric release is stated as it is, zero included
	m.Info.Release = rel
	var buf bytes.Buffer
	err := Packager("archlinux").Package(m.Info, &buf)
	v.Reach("C02.arch.ran")
	v.Assert(err == nil, "arch-packages")
	if err != nil {
		return
	}
	vw, ok := Decode("archlinux", buf.Bytes())
	pk := models.Find(vw.Control, ".PKGINFO")
	v.Assert(ok && pk != nil, "arch-pkginfo-present")
	if !ok || pk == nil {
		return
	}
	t := string(pk.Data)
	verifKV1(t, "pkgname", m.Name, "arch-name")
	verifKV1(t, "pkgbase", m.Name, "arch-pkgbase-defaults-to-name")
	verifKV1(t, "pkgver", "1.2.3-"+rel, "arch-version")
	verifKV1(t, "arch", "x86_64", "arch-architecture")
	verifKV1(t, "pkgdesc", m.Desc, "arch-description")
	verifKV1(t, "url", m.Homepage, "arch-homepage")
	verifKV1(t, "license", m.License, "arch-license")
	v.Assert(verifSameList(v.KV(t, "replaces"), m.Replaces), "arch-replaces")
	v.Assert(verifSameList(v.KV(t, "conflict"), m.Conflicts), "arch-conflicts")
	v.Assert(verifSameList(v.KV(t, "provides"), m.Provides), "arch-provides")
	v.Assert(verifSameList(v.KV(t, "depend"), m.Depends), "arch-depends")
}

// Verif_C02_B_RpmMeta: every metadata value reaches the rpm header tag of its own kind.
func Verif_C02_B_RpmMeta() {
	m := scen.NewMeta()
	m.Info.RPM.Group = "grp"
	m.Info.RPM.Prefixes = []string{"/opt"}
	var buf bytes.Buffer
	err := Packager("rpm").Package(m.Info, &buf)
	v.Reach("C02.rpm.ran")
	v.Assert(err == nil, "rpm-packages")
	if err != nil {
		return
	}
	vw, ok := Decode("rpm", buf.Bytes())
	v.Assert(ok, "rpm-decodes")
	if !ok {
		return
	}
	r := vw.Rpm
	v.Assert(r.Name == m.Name, "rpm-name")
	v.Assert(r.Version == "1.2.3" && r.Release == "2" && !r.HasEpoch, "rpm-version-release-epoch")
	v.Assert(r.Arch == "x86_64" && r.OS == "linux", "rpm-arch-os")
	v.Assert(r.License == m.License && r.URL == m.Homepage && r.Vendor == m.Vendor, "rpm-license-url-vendor")
	v.Assert(r.Packager == m.Maintainer, "rpm-packager-defaults-to-maintainer")
	v.Assert(r.Summary == m.Desc && r.Description == m.Desc, "rpm-summary-and-description")
	v.Assert(r.Group == "grp" && r.BuildHost == "host", "rpm-group-buildhost")
	v.Assert(verifSameList(r.Prefixes, []string{"/opt"}), "rpm-prefixes")
	has := func(l []string, x string) bool {
		for _, y := range l {
			if y == x {
				return true
			}
		}
		return false
	}
	all := func(got, want []string) bool {
		// rpm may add entries of its own (self-provide, rpmlib requirements): every configured item is there, in order
		i := 0
		for _, g := range got {
			if i < len(want) && g == want[i] {
				i++
			}
		}
		return i == len(want)
	}
	_ = has
	v.Assert(all(r.Provides, m.Provides), "rpm-provides")
	v.Assert(all(r.Requires, m.Depends), "rpm-requires-are-the-depends")
	// rpm adds nothing of its own to these four: exactly the configured lists
	v.Assert(verifSameList(r.Recommends, m.Recommends), "rpm-recommends")
	v.Assert(verifSameList(r.Suggests, m.Suggests), "rpm-suggests")
	v.Assert(verifSameList(r.Conflicts, m.Conflicts), "rpm-conflicts")
	v.Assert(verifSameList(r.Obsoletes, m.Replaces), "rpm-obsoletes-are-the-replaces")
}
