//go:build verif

package cmd

import (
	"bytes"
	"io"
	"runtime"
	"time"

	"github.com/Masterminds/semver/v3"
	"github.com/goreleaser/nfpm/v2"
	"github.com/goreleaser/nfpm/v2/files"
	v "github.com/goreleaser/nfpm/v2/internal/zzverif"
	"github.com/goreleaser/nfpm/v2/internal/zzverif/models"
)

// verifSharedConfig: a parsed configuration with every kind of shareable
// state: content entries with and without file_info, relation lists with spare
// capacity, custom-field maps, scripts, an override block.
// verifCollide adds a per-format content collision to the shared configuration.
var verifCollide bool

func verifSharedConfig(withInfo bool) *nfpm.Config {
	mt := time.Unix(1600000000, 0).UTC()
	f1 := models.AddFile("/src/f1", []byte("AB"), 0o644, mt)
	f2 := models.AddFile("/src/f2", []byte("C"), 0o755, mt)
	sc := models.AddFile("/scripts/post", []byte("x"), 0o755, mt)
	cfg := &nfpm.Config{}
	cfg.Name, cfg.Arch, cfg.Platform, cfg.Version = "pkg", "amd64", "linux", "1.2.3"
	cfg.Description, cfg.Maintainer = "d", "m <m@x>"
	cfg.MTime = time.Unix(1700000000, 0).UTC()
	cfg.Umask = 0o022
	cfg.RPM.BuildHost = "host"
	// column-aligned relation entries: a packager that tidies them must do so on its own copy
	cfg.Depends = append(make([]string, 0, 4), "dep   >= 1.0")
	cfg.Conflicts = []string{"old \t<  2.0"}
	cfg.Provides = []string{"", "prov", "prov2"}
	cfg.Scripts.PostInstall = sc
	cfg.Deb.Fields = map[string]string{"Bugs": "b"}
	cfg.IPK.Fields = map[string]string{"Source": "s", "Maintainer": "dup"}
	c1 := &files.Content{Source: f1, Destination: "/usr/bin/tool"}
	if withInfo {
		c1.FileInfo = &files.ContentFileInfo{Mode: 0o750}
	}
	f3 := models.AddFile("/src/f3", []byte("R"), 0o644, mt)
	cfg.Contents = files.Contents{
		{Source: f3, Destination: "/usr/share/doc/tool/README.rpm", Packager: "rpm"},
		{Source: f3, Destination: "/usr/share/doc/tool/README.deb", Packager: "deb"},
		c1,
		{Source: f2, Destination: "/etc/tool.conf", Type: files.TypeConfig, FileInfo: &files.ContentFileInfo{Owner: "own"}},
		{Source: f2, Destination: "/etc/tool.keep", Type: files.TypeConfigNoReplace},
		{Source: f2, Destination: "/etc/tool.opt", Type: files.TypeConfigMissingOK},
		{Destination: "/var/lib/tool", Type: files.TypeDir, FileInfo: &files.ContentFileInfo{}},
		{Destination: "/var/run/tool.pid", Type: files.TypeRPMGhost},
		// owner, group and mtime configured, mode left to the source file: only the mode is defaulted
		{Source: f3, Destination: "/usr/share/doc/tool/NOTES", Type: files.TypeRPMReadme, FileInfo: &files.ContentFileInfo{Owner: "o", Group: "g", MTime: mt}},
		// a directory whose file_info is spelled out completely (nothing left to default)
		{Destination: "/var/cache/tool", Type: files.TypeDir, FileInfo: &files.ContentFileInfo{Owner: "o", Group: "g", Mode: 0o750, MTime: mt}},
	}
	if verifCollide {
		// a packaging that FAILS must leave the configuration alone too: for rpm
		// (only) the ghost collides with a file of the directory source
		models.AddDir("/src/many", 0o755, mt)
		models.AddFile("/src/many/a.txt", []byte("a"), 0o644, mt)
		models.AddFile("/src/many/b.txt", []byte("b"), 0o644, mt)
		cfg.Contents = append(cfg.Contents,
			&files.Content{Destination: "/opt/demo/b.txt", Type: files.TypeRPMGhost},
			&files.Content{Source: models.NativePath("/src/many"), Destination: "/opt/demo/"})
	}
	cfg.Overrides = map[string]*nfpm.Overridables{"deb": {Depends: []string{"debdep"}}, "rpm": {Suggests: []string{"s"}}}
	return cfg
}

// verifIsolation: one operation on the effective settings of one format leaves
// everything reachable from the parsed configuration unchanged (frame lemma:
// if no operation changes the configuration and each package is a function of
// it, then any sequence of operations yields what a fresh parse yields).
func verifIsolation(op, format string, withInfo bool, prop string) {
	// every compressor a format can be told to use (each is a different code
	// path with its own writer objects)
	comp := v.NondetChoice("compression.variant", 4)
	verifCollide = v.NondetBool("rpm.only.collision")
	noMaintainer := v.NondetBool("maintainer.empty") // deb and ipk then print a deprecation notice
	verifCfg := func() *nfpm.Config {
		cfg := verifSharedConfig(withInfo)
		cfg.Deb.Compression = []string{"", "zstd", "xz", "none"}[comp]
		cfg.RPM.Compression = []string{"", "zstd", "xz", "lzma"}[comp]
		if noMaintainer {
			cfg.Maintainer = ""
		}
		return cfg
	}
	cfg := verifCfg()
	v.Snapshot(cfg, "config")
	if prop == "C12" {
		v.WatchGlobals()
	}
	if prop == "C12" && !v.Symbolic() {
		// (run BEFORE the sequential operation below: state that is only written on
		// first use in a process would otherwise be warm already)
		// native replay: the same operation from the same configuration for another
		// format, and for the same format from independent settings, concurrently,
		// under `go test -race` (the driver looks for the detector's report)
		other := Formats[(indexOf(format)+1)%len(Formats)]
		indep := verifCfg()
		done := make(chan bool, 3)
		run := func(c *nfpm.Config, f string) {
			defer func() { done <- true }()
			info, err := c.Get(f)
			if err != nil {
				return
			}
			var buf bytes.Buffer
			switch op {
			case "validate":
				c.Validate()
			case "filename":
				Packager(f).ConventionalFileName(nfpm.WithDefaults(info))
			default:
				Packager(f).Package(nfpm.WithDefaults(info), &buf)
			}
		}
		fresh := verifCfg()
		go run(fresh, format)
		go run(fresh, other)
		go run(indep, format)
		<-done
		<-done
		<-done
	}
	p := Packager(format)
	switch op {
	case "validate":
		cfg.Validate()
	case "filename":
		info, err := cfg.Get(format)
		if err == nil {
			p.ConventionalFileName(nfpm.WithDefaults(info))
		}
	case "package":
		info, err := cfg.Get(format)
		if err == nil {
			var buf bytes.Buffer
			p.Package(nfpm.WithDefaults(info), &buf)
		}
	}
	v.Reach(prop + ".isolation.ran")
	v.Assert(!v.Changed("config"), format+"-"+op+"-leaves-the-configuration-unchanged")
	if prop == "C12" {
		v.Assert(!v.Written("config"), format+"-"+op+"-writes-no-memory-shared-through-the-configuration")
		v.Assert(v.GlobalWrites() == 0, format+"-"+op+"-writes-no-package-level-variable")
		// natively: the same packaging, stalled at its first output write until an
		// independent packaging of the same format (other content) has run to its
		// end on the same P, must still produce what it produces alone
		interleavedOK := true
		if !v.Symbolic() && op == "package" {
			build := func(c *nfpm.Config, w io.Writer) {
				if info, err := c.Get(format); err == nil {
					Packager(format).Package(nfpm.WithDefaults(info), w)
				}
			}
			var alone bytes.Buffer
			build(verifCfg(), &alone)
			prev := runtime.GOMAXPROCS(1)
			gate := make(chan struct{})
			a := &verifStallWriter{gate: gate}
			other := verifSharedConfig(!withInfo)
			go func() {
				var b bytes.Buffer
				build(other, &b)
				close(gate)
			}()
			build(verifCfg(), a)
			runtime.GOMAXPROCS(prev)
			interleavedOK = format == "rpm" || bytes.Equal(a.buf.Bytes(), alone.Bytes())
		}
		v.Assert(v.PooledAccesses() == 0 && interleavedOK, format+"-"+op+"-touches-no-object-after-handing-it-back-to-a-pool")
	}
}

func verifIsolationAll(prop string) {
	format := Formats[v.NondetChoice("format", len(Formats))]
	op := []string{"package", "filename", "validate"}[v.NondetChoice("op", 3)]
	if v.Symbolic() {
		v.Store("semver.next", semver.New(1, 2, 3, "", ""))
	}
	verifIsolation(op, format, v.NondetBool("entry1.has.file_info"), prop)
}

// Verif_C11_Isolation: every (operation, format) pair.
func Verif_C11_Isolation() { verifIsolationAll("C11") }

// Verif_C12_SharedState: the same run, seen as a data-race condition: two
// packagings from one configuration race iff one of them writes memory
// reachable from the configuration or a package-level variable.
func Verif_C12_SharedState() { verifIsolationAll("C12") }

func indexOf(format string) int {
	for i, f := range Formats {
		if f == format {
			return i
		}
	}
	return 0
}

// verifStallWriter blocks its first Write until gate is closed.
type verifStallWriter struct {
	gate   chan struct{}
	waited bool
	buf    bytes.Buffer
}

func (w *verifStallWriter) Write(p []byte) (int, error) {
	if !w.waited {
		w.waited = true
		<-w.gate
	}
	return w.buf.Write(p)
}
