//go:build verif

// This file holds the format-generic whole-package harnesses (fault
// injection, signing, reproducibility, isolation): one harness body, run for
// each of the five packagers through the public nfpm.Packager interface.
package cmd

import (
	"io"

	"github.com/goreleaser/nfpm/v2"
	"github.com/goreleaser/nfpm/v2/apk"
	"github.com/goreleaser/nfpm/v2/arch"
	"github.com/goreleaser/nfpm/v2/deb"
	"github.com/goreleaser/nfpm/v2/ipk"
	"github.com/goreleaser/nfpm/v2/rpm"

	v "github.com/goreleaser/nfpm/v2/internal/zzverif"
	"github.com/goreleaser/nfpm/v2/internal/zzverif/models"
)

var Formats = []string{"deb", "rpm", "apk", "archlinux", "ipk"}

func Packager(format string) nfpm.Packager {
	switch format {
	case "deb":
		return deb.Default
	case "rpm":
		return rpm.Default
	case "apk":
		return apk.Default
	case "archlinux":
		return arch.Default
	case "ipk":
		return ipk.Default
	}
	return nil
}

// Stamp is one timestamp found somewhere in a package.
type Stamp struct {
	Where string
	Unix  int64
	Text  string // decimal text when the format stores text (ar headers, PKGINFO, MTREE)
}

// View is what the independent decoders see in a package.
type View struct {
	Payload []models.Entry // payload entries in archive order (names as stored)
	Control []models.Entry // control / metadata members (deb+ipk control tar, apk control segment, archlinux dot files)
	Segs    [][]byte       // apk: raw gzip members; deb: ar member bodies; ipk: outer member bodies
	Names   []string       // names of Segs
	Rpm     models.RpmView
	Stamps  []Stamp
}

func tgz(b []byte) ([]models.Entry, bool) {
	kind, tb, rest, ok := models.Decompress(b)
	if !ok || kind != models.KindGzip || len(rest) != 0 {
		return nil, false
	}
	es, complete, ok := models.DecodeTar(tb)
	return es, ok && complete
}

func stampEntries(where string, es []models.Entry, out []Stamp) []Stamp {
	for _, e := range es {
		out = append(out, Stamp{Where: where + ":" + e.Name, Unix: e.MTime})
	}
	return out
}

// Decode opens a package of the given format.
func Decode(format string, out []byte) (View, bool) {
	var vw View
	switch format {
	case "deb":
		ms, ok := models.DecodeAr(out)
		if !ok || len(ms) < 3 {
			return vw, false
		}
		for _, m := range ms {
			vw.Segs = append(vw.Segs, m.Body)
			vw.Names = append(vw.Names, m.Name)
			vw.Stamps = append(vw.Stamps, Stamp{Where: "ar:" + m.Name, Text: m.MTime})
		}
		c, ok := tgz(ms[1].Body)
		if !ok {
			return vw, false
		}
		vw.Control = c
		body := ms[2].Body
		if ms[2].Name != "data.tar" {
			_, tb, rest, ok := models.Decompress(body)
			if !ok || len(rest) != 0 {
				return vw, false
			}
			body = tb
		}
		es, complete, ok := models.DecodeTar(body)
		if !ok || !complete {
			return vw, false
		}
		vw.Payload = es
	case "ipk":
		outer, ok := tgz(out)
		if !ok || len(outer) != 3 {
			return vw, false
		}
		for _, m := range outer {
			vw.Segs = append(vw.Segs, m.Data)
			vw.Names = append(vw.Names, m.Name)
		}
		vw.Stamps = stampEntries("outer", outer, vw.Stamps)
		c, ok := tgz(outer[1].Data)
		if !ok {
			return vw, false
		}
		d, ok := tgz(outer[2].Data)
		if !ok {
			return vw, false
		}
		vw.Control, vw.Payload = c, d
	case "apk":
		rest := out
		for len(rest) > 0 {
			kind, tb, r2, ok := models.Decompress(rest)
			if !ok || kind != models.KindGzip {
				return vw, false
			}
			es, complete, ok := models.DecodeTar(tb)
			if !ok {
				return vw, false
			}
			vw.Segs = append(vw.Segs, rest[:len(rest)-len(r2)])
			if complete {
				vw.Payload = es
				vw.Names = append(vw.Names, "data")
			} else {
				vw.Control = append(vw.Control, es...)
				vw.Names = append(vw.Names, "cut")
			}
			rest = r2
		}
	case "archlinux":
		kind, tb, rest, ok := models.Decompress(out)
		if !ok || kind != models.KindZstd || len(rest) != 0 {
			return vw, false
		}
		es, complete, ok := models.DecodeTar(tb)
		if !ok || !complete {
			return vw, false
		}
		for _, e := range es {
			if e.Name == ".PKGINFO" || e.Name == ".MTREE" || e.Name == ".INSTALL" {
				vw.Control = append(vw.Control, e)
			} else {
				vw.Payload = append(vw.Payload, e)
			}
		}
		if m := models.Find(vw.Control, ".MTREE"); m != nil {
			if _, text, _, ok := models.Decompress(m.Data); ok {
				for _, l := range v.Lines(string(text)) {
					for i := 0; i+6 < len(l); i++ {
						if l[i:i+6] == " time=" {
							j := i + 6
							for j < len(l) && l[j] != '.' {
								j++
							}
							vw.Stamps = append(vw.Stamps, Stamp{Where: "mtree", Text: l[i+6 : j]})
						}
					}
				}
			}
		}
		if p := models.Find(vw.Control, ".PKGINFO"); p != nil {
			for _, b := range v.KV(string(p.Data), "builddate") {
				vw.Stamps = append(vw.Stamps, Stamp{Where: "builddate", Text: b})
			}
		}
	case "rpm":
		r, ok := models.DecodeRPM(out)
		if !ok {
			return vw, false
		}
		vw.Rpm = r
		vw.Stamps = append(vw.Stamps, Stamp{Where: "rpm:buildtime", Unix: int64(r.BuildTime)})
		for _, f := range r.Files {
			vw.Stamps = append(vw.Stamps, Stamp{Where: "rpm:" + f.Name, Unix: int64(f.MTime)})
		}
		return vw, true
	default:
		return vw, false
	}
	vw.Stamps = stampEntries("payload", vw.Payload, vw.Stamps)
	vw.Stamps = stampEntries("control", vw.Control, vw.Stamps)
	return vw, true
}

// FaultWriter is a destination writer that fails once, at a solver-chosen
// write, either completely or after a prefix of the bytes.
type FaultWriter struct {
	Buf     []byte
	Writes  int
	Failed  bool
	FailIdx int
	Enabled bool
	// native sweep (no recorded inputs): fail at write number ForceIdx (1-based)
	ForceIdx     int
	ForcePartial bool
}

var ErrDisk = io.ErrClosedPipe

func (w *FaultWriter) Write(p []byte) (int, error) {
	w.Writes++
	if w.ForceIdx > 0 {
		if w.Writes == w.ForceIdx && !w.Failed {
			w.Failed = true
			w.FailIdx = w.Writes
			if len(p) > 1 && w.ForcePartial {
				w.Buf = append(w.Buf, p[:len(p)/2]...)
				return len(p) / 2, ErrDisk
			}
			return 0, ErrDisk
		}
		w.Buf = append(w.Buf, p...)
		return len(p), nil
	}
	if w.Enabled && !w.Failed && v.NondetBool("fault.write") {
		w.Failed = true
		w.FailIdx = w.Writes
		if len(p) > 1 && v.NondetBool("fault.partial") {
			w.Buf = append(w.Buf, p[:len(p)/2]...)
			return len(p) / 2, ErrDisk
		}
		return 0, ErrDisk
	}
	w.Buf = append(w.Buf, p...)
	return len(p), nil
}
