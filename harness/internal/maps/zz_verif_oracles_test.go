//go:build verif

package maps_test

import (
	"testing"

	v "github.com/goreleaser/nfpm/v2/internal/zzverif"
)

func sign(x int) int {
	switch {
	case x < 0:
		return -1
	case x > 0:
		return 1
	}
	return 0
}

func TestDpkg(t *testing.T) {
	// vectors from Debian policy / dpkg's own test suite (lib/dpkg/t/t-version.c)
	for _, c := range []struct {
		a, b string
		want int
	}{
		{"1.0", "1.0", 0}, {"1.0~rc1", "1.0", -1}, {"1.0~rc1", "1.0~rc2", -1}, {"1.0", "1.0-1", -1},
		{"1:0.1", "2.0", 1}, {"0:1.0", "1.0", 0}, {"1.9", "1.10", -1}, {"1.0-1", "1.0-2", -1},
		{"1.0a", "1.0", 1}, {"1.0+b", "1.0", 1}, {"1.0~~", "1.0~", -1}, {"1.0~", "1.0", -1},
		{"1.2.3", "1.2.3~beta1", 1}, {"1.0+git", "1.0~rc1+git", 1}, {"2.0.0", "10.0.0", -1},
		{"1.0-a", "1.0-b", -1}, {"1.0.0~rc1-1", "1.0.0-1", -1}, {"1.0-1-2", "1.0-1", 1},
		{"0", "00", 0}, {"1.01", "1.1", 0}, {"1.0~a+b", "1.0~a", 1},
	} {
		got, ok := v.DpkgCompare(c.a, c.b)
		if !ok || sign(got) != c.want {
			t.Errorf("dpkg %q vs %q = %d ok=%v, want %d", c.a, c.b, got, ok, c.want)
		}
		got2, _ := v.DpkgCompare(c.b, c.a)
		if sign(got2) != -c.want {
			t.Errorf("dpkg antisymmetry %q %q", c.a, c.b)
		}
	}
}

func TestRpm(t *testing.T) {
	// vectors from rpm's tests/rpmvercmp.at
	for _, c := range []struct {
		a, b string
		want int
	}{
		{"1.0", "1.0", 0}, {"1.0", "2.0", -1}, {"2.0", "1.0", 1}, {"2.0.1", "2.0.1", 0}, {"2.0", "2.0.1", -1},
		{"2.0.1a", "2.0.1a", 0}, {"2.0.1a", "2.0.1", 1}, {"5.5p1", "5.5p2", -1}, {"5.5p10", "5.5p1", 1},
		{"10xyz", "10.1xyz", -1}, {"xyz10", "xyz10.1", -1}, {"xyz.4", "8", -1}, {"xyz.4", "2", -1},
		{"5.5p2", "5.6p1", -1}, {"6.0.rc1", "6.0", 1}, {"10b2", "10a1", 1}, {"1.0aa", "1.0a", 1},
		{"10.0001", "10.1", 0}, {"10.0001", "10.0039", -1}, {"4.999.9", "5.0", -1}, {"20101121", "20101122", -1},
		{"2_0", "2.0", 0}, {"a", "a", 0}, {"a+", "a+", 0}, {"a+", "a_", 0}, {"+a", "_a", 0}, {"+_", "_+", 0},
		{"1.0~rc1", "1.0~rc1", 0}, {"1.0~rc1", "1.0", -1}, {"1.0", "1.0~rc1", 1}, {"1.0~rc1", "1.0~rc2", -1},
		{"1.0~rc1~git123", "1.0~rc1", -1}, {"1.0^", "1.0", 1}, {"1.0^git1", "1.0", 1}, {"1.0^git1", "1.01", -1},
		{"1.0~rc1^git1", "1.0~rc1", 1}, {"1.0^git1~pre", "1.0^git1", -1}, {"1.0.0~rc_1", "1.0.0", -1},
	} {
		if got := v.RpmVerCmp(c.a, c.b); got != c.want {
			t.Errorf("rpmvercmp %q vs %q = %d, want %d", c.a, c.b, got, c.want)
		}
	}
}
