//go:build verif

package glob

import (
	"time"

	v "github.com/goreleaser/nfpm/v2/internal/zzverif"
	"github.com/goreleaser/nfpm/v2/internal/zzverif/models"
)

func verifName(name string) string {
	s := v.NondetStringRange(name, 1, 2)
	v.Assume(v.AllIn(s, "a-b"))
	return s
}

// Verif_C05_K5_GlobMapping: a pattern with metacharacters matching files in
// two sibling directories (whose names may be prefixes of one another, like lib
// and lib64) is mapped below the destination with the structure below the
// deepest common DIRECTORY of the matches: every result lies inside the
// destination and keeps its directory component. (fileglob itself is played by
// the harness: it names the matches.)
func Verif_C05_K5_GlobMapping() {
	mt := time.Unix(1700000000, 0).UTC()
	d1, d2 := verifName("dir1"), verifName("dir2")
	v.Assume(d1 != d2)
	models.AddDir("/r", 0o755, mt)
	models.AddDir("/r/u", 0o755, mt)
	models.AddDir("/r/u/"+d1, 0o755, mt)
	models.AddDir("/r/u/"+d2, 0o755, mt)
	f1 := models.AddFile("/r/u/"+d1+"/x.so", []byte("1"), 0o644, mt)
	f2 := models.AddFile("/r/u/"+d2+"/y.so", []byte("2"), 0o644, mt)
	if v.Symbolic() {
		models.GlobOverride = []string{f1, f2}
	}
	pattern := models.NativePath("/r/u") + "/*/*.so"
	res, err := Glob(pattern, "/opt/pkg", false)
	v.Reach("K5.ran")
	v.Assert(err == nil && len(res) == 2, "glob-maps-both-matches")
	if err != nil || len(res) != 2 {
		return
	}
	v.Assert(res[f1] == "/opt/pkg/"+d1+"/x.so", "glob-keeps-structure-below-common-directory-first")
	v.Assert(res[f2] == "/opt/pkg/"+d2+"/y.so", "glob-keeps-structure-below-common-directory-second")
}
