//go:build verif

package files

import (
	"time"

	v "github.com/goreleaser/nfpm/v2/internal/zzverif"
	"github.com/goreleaser/nfpm/v2/internal/zzverif/models"
)

// Verif_C17_ContentType: every contents[].type the planner accepts is allowed
// by the schema enum of the field (the two internal types "implicit dir" and
// "debian changelog" excepted), and every enum value is accepted.
func Verif_C17_ContentType() {
	enum := v.SchemaEnums["Content.Type"]
	mt := time.Unix(1700000000, 0).UTC()
	src := models.AddFile("/s/f", []byte("x"), 0o644, mt)
	dir := models.AddDir("/s/d", 0o755, mt)
	models.AddFile("/s/d/x", []byte("y"), 0o644, mt)
	v.Reach("C17.type.ran")
	v.Assert(len(enum) > 0, "content-type-has-a-schema-enum")
	run := func(typ string) error {
		s := src
		if typ == TypeTree {
			s = dir
		}
		_, err := PrepareForPackager(Contents{{Source: s, Destination: "/dst/f", Type: typ}}, 0o022, "rpm", false, mt)
		return err
	}
	for _, e := range enum {
		v.Assert(run(e) == nil, "content-type-enum-value-is-accepted")
	}
	typ := v.NondetString("type", 16)
	if run(typ) == nil && typ != "" && typ != TypeImplicitDir && typ != TypeDebChangelog {
		v.Assert(verifInEnumF(typ, enum), "content-type-accepted-value-is-in-the-schema-enum")
	}
}

func verifInEnumF(s string, enum []string) bool {
	for _, e := range enum {
		if s == e {
			return true
		}
	}
	return false
}

// Verif_C08_RpmOnlyTypesStayInRpm: ghost, doc, licence/license and readme entries
// are planned for rpm only, whatever their per-entry packager tag says.
func Verif_C08_RpmOnlyTypesStayInRpm() {
	mt := time.Unix(1700000000, 0).UTC()
	src := models.AddFile("/s/f", []byte("x"), 0o644, mt)
	typ := []string{TypeRPMGhost, TypeRPMDoc, TypeRPMLicence, TypeRPMLicense, TypeRPMReadme}[v.NondetChoice("type", 5)]
	packager := []string{"deb", "apk", "archlinux", "ipk", "rpm"}[v.NondetChoice("packager", 5)]
	tag := v.NondetString("tag", 9)
	res, err := PrepareForPackager(Contents{{Source: src, Destination: "/usr/share/doc/x", Type: typ, Packager: tag}}, 0o022, packager, false, mt)
	v.Reach("C08.rpmonly.ran")
	v.Assert(err == nil, "rpm-only-entry-plans")
	if packager != "rpm" {
		v.Assert(len(res) == 0, "rpm-only-entry-absent-from-other-formats")
	} else if tag == "" || tag == "rpm" {
		v.Assert(len(res) > 0, "rpm-only-entry-present-in-rpm")
	}
}
