//go:build verif

package files

import (
	v "github.com/goreleaser/nfpm/v2/internal/zzverif"
)

// verifSafeRel: relative member name, no empty / "." / ".." component; a
// directory name ends in exactly one '/', a file name in none.
//
//verif:summarize
func verifSafeRel(name string, dir bool) bool {
	if len(name) == 0 || name[0] == '/' {
		return false
	}
	if dir {
		if name[len(name)-1] != '/' {
			return false
		}
		name = name[:len(name)-1]
	}
	return verifIsCleanAbs("/" + name)
}

// Verif_C04_A_MemberNames: for every destination spelling, the member names the
// formats derive from it (deb/ipk: "./"-prefixed, apk/archlinux: bare) are
// relative, free of "." / ".." / empty components, and directories end in '/'.
func Verif_C04_A_MemberNames() {
	s := v.NondetString("dst", v.Bound("C04.len", 5, 9))
	f := NormalizeAbsoluteFilePath(s)
	d := NormalizeAbsoluteDirPath(s)
	v.Reach("C04.a.ran")
	if f == "/" {
		return // the root itself is never a member
	}
	rf, rd := AsRelativePath(f), AsRelativePath(d)
	ef, ed := AsExplicitRelativePath(f), AsExplicitRelativePath(d)
	v.Observe("rd", rd)
	v.Assert(verifSafeRel(rf, false), "file-member-name-safe")
	v.Assert(verifSafeRel(rd, true), "dir-member-name-ends-in-slash")
	v.Assert(len(ef) > 2 && ef[:2] == "./" && verifSafeRel(ef[2:], false), "explicit-file-member-name-safe")
	v.Assert(len(ed) > 2 && ed[:2] == "./" && verifSafeRel(ed[2:], true), "explicit-dir-member-name-ends-in-slash")
}
