//go:build verif

package files

import (
	"errors"
	"time"

	v "github.com/goreleaser/nfpm/v2/internal/zzverif"
	"github.com/goreleaser/nfpm/v2/internal/zzverif/models"
)

// ---- the independent reference planner (written from the property text) ----

const (
	verifOccFile     = 1 // file-like: regular file, config, symlink, ghost, doc, ...
	verifOccDir      = 2 // explicitly declared directory
	verifOccImplied  = 3 // ancestor directory that is only implied
	verifOccTreeFile = 4 // file-like placed by a tree expansion
	verifOccTreeDir  = 5 // directory placed by a tree expansion
)

type verifOccupant struct {
	path  string // canonical absolute path, no trailing slash
	kind  int
	entry int // index of the raw entry it comes from
	typ   string
}

type verifPlanEnt struct {
	typ      string
	packager string
	canon    string // canonical destination "/a" or "/a/b"
	trailing bool   // destination was spelled with a trailing slash
	src      int    // 0 none, 1 regular file, 2 directory, 3 on-disk symlink, 4 dangling literal
}

//verif:summarize
func verifIsAncestor(a, b string) bool { // a is a proper ancestor of b
	return len(b) > len(a)+1 && b[:len(a)] == a && b[len(a)] == '/'
}

//verif:summarize
func verifSamePath(a, b string) bool { return a == b }

func verifRelevant(packager string, e verifPlanEnt) bool {
	if e.packager != "" && e.packager != packager {
		return false
	}
	switch e.typ {
	case TypeRPMGhost, TypeRPMDoc, TypeRPMLicence, TypeRPMLicense, TypeRPMReadme:
		return packager == "rpm"
	case TypeDebChangelog:
		return packager == "deb"
	}
	return true
}

// verifExpand lists what one relevant entry places into the package.
func verifExpand(i int, e verifPlanEnt) []verifOccupant {
	c := e.canon
	switch e.typ {
	case TypeImplicitDir:
		return nil
	case TypeDir:
		return []verifOccupant{{c, verifOccDir, i, TypeDir}}
	case TypeRPMGhost, TypeRPMDoc, TypeRPMLicence, TypeRPMLicense, TypeRPMReadme, TypeDebChangelog, TypeSymlink:
		return []verifOccupant{{c, verifOccFile, i, e.typ}}
	case TypeTree:
		return []verifOccupant{
			{c, verifOccTreeDir, i, TypeDir},
			{c + "/sub", verifOccTreeDir, i, TypeDir},
			{c + "/sub/y", verifOccTreeFile, i, TypeFile},
			{c + "/x", verifOccTreeFile, i, TypeFile},
		}
	}
	// file, config*, "": glob expansion
	t := e.typ
	if t == "" {
		t = TypeFile
	}
	switch e.src {
	case 1:
		if e.trailing {
			return []verifOccupant{{c + "/f", verifOccFile, i, t}}
		}
		return []verifOccupant{{c, verifOccFile, i, t}}
	case 3: // an on-disk symlink is shipped as a symlink
		if e.trailing {
			return []verifOccupant{{c + "/l", verifOccFile, i, TypeSymlink}}
		}
		return []verifOccupant{{c, verifOccFile, i, TypeSymlink}}
	case 2:
		if e.trailing { // into that directory, flattened
			return []verifOccupant{{c + "/y", verifOccFile, i, t}, {c + "/x", verifOccFile, i, t}}
		}
		return []verifOccupant{{c + "/sub/y", verifOccFile, i, t}, {c + "/x", verifOccFile, i, t}}
	}
	return nil
}

type verifPlanVerdict struct {
	sameKind  bool // two file-likes, or two explicit dirs, on one path (no tree involved)
	fileDir   bool // a file-like and a directory (explicit or implied) on one path (no tree involved)
	treeRoot  bool // the root directory of a tree and a declared directory on one path (either order)
	treeOver  bool // a tree expanded over what an EARLIER entry placed (addTree does not look)
	treeUnder bool // a LATER entry lands on what a tree placed, same kind on the same path
	treeOther bool // a later entry vs a tree verifOccupant, file-like against directory on one path
}

func verifIsFileKind(k int) bool { return k == verifOccFile || k == verifOccTreeFile }
func verifIsTreeKind(k int) bool { return k == verifOccTreeFile || k == verifOccTreeDir }

func verifOracle(occ []verifOccupant, plan []verifPlanEnt) verifPlanVerdict {
	var r verifPlanVerdict
	for i := 0; i < len(occ); i++ {
		for j := i + 1; j < len(occ); j++ {
			a, b := occ[i], occ[j]
			if a.entry == b.entry && verifIsTreeKind(a.kind) {
				continue // a tree never collides with itself
			}
			same := verifSamePath(a.path, b.path)
			af, bf := verifIsFileKind(a.kind), verifIsFileKind(b.kind)
			beneath := !same && (af && verifIsAncestor(a.path, b.path) || bf && verifIsAncestor(b.path, a.path))
			if !same && !beneath {
				continue
			}
			at, bt := verifIsTreeKind(a.kind), verifIsTreeKind(b.kind)
			if !at && !bt {
				if same && af == bf {
					r.sameKind = true
				} else {
					r.fileDir = true
				}
				continue
			}
			// a tree takes part; which entry comes first in the list?
			tree, other := a, b
			if !at {
				tree, other = b, a
			}
			if at && bt {
				// two trees: the later one overwrites
				r.treeOver = true
				continue
			}
			rootOfTree := tree.path == plan[tree.entry].canon
			switch {
			case same && rootOfTree && other.kind == verifOccDir:
				r.treeRoot = true
			case tree.entry > other.entry:
				r.treeOver = true
			case same && verifIsFileKind(tree.kind) == verifIsFileKind(other.kind):
				r.treeUnder = true
			default:
				r.treeOther = true
			}
		}
	}
	return r
}

// ---- inputs ----

var verifSmallPlan bool

// verifAllSpellings adds the '..', duplicate-slash and '.' spellings (single-entry plans).
var verifAllSpellings bool

var verifPackagers = []string{"deb", "rpm", ""}

func verifSeg(name string) string {
	s := v.NondetStringN(name, 1)
	v.Assume(v.AllIn(s, "a-b"))
	return s
}

// verifPlanFS sets up the source tree; it returns the paths of: [1] a regular
// file, [2] a directory holding x and sub/y, [3] an on-disk symlink.
func verifPlanFS() []string {
	mt := time.Unix(1600000000, 0).UTC()
	models.AddDir("/s", 0o755, mt)
	f := models.AddFile("/s/f", []byte("F"), 0o644, mt)
	d := models.AddDir("/s/d", 0o755, mt)
	models.AddDir("/s/d/sub", 0o750, mt)
	models.AddFile("/s/d/sub/y", []byte("Y"), 0o600, mt)
	models.AddFile("/s/d/x", []byte("X"), 0o755, mt)
	l := models.AddSymlink("/s/l", "f", mt)
	return []string{"", f, d, l}
}

var verifPlanTypes = []string{TypeFile, TypeDir, TypeSymlink, TypeConfig, TypeTree, TypeRPMGhost, TypeDebChangelog,
	TypeConfigNoReplace, TypeConfigMissingOK, TypeRPMDoc, TypeRPMLicence, TypeRPMLicense, TypeRPMReadme, TypeImplicitDir, ""}

func verifPlanEntry(name string, ntypes int, srcs []string) (verifPlanEnt, *Content) {
	var e verifPlanEnt
	e.typ = verifPlanTypes[v.NondetChoice(name+".type", ntypes)]
	if !verifSmallPlan {
		e.packager = verifPackagers[v.NondetChoice(name+".packager", 3)]
	}
	e.canon = "/" + verifSeg(name+".seg1")
	if v.NondetBool(name + ".deep") {
		e.canon += "/" + verifSeg(name+".seg2")
	}
	spelled := e.canon
	nsp := 3
	if verifSmallPlan {
		nsp = 2
	}
	if verifAllSpellings {
		nsp = 6
	}
	switch v.NondetChoice(name+".spelling", nsp) {
	case 1:
		spelled = e.canon + "/"
		e.trailing = true
	case 2:
		spelled = e.canon[1:] // relative spelling
	case 3:
		spelled = "/zz/.." + e.canon // steps out of a directory that is no ancestor of the entry
	case 4:
		spelled = "/" + e.canon // duplicate slash
	case 5:
		spelled = "/." + e.canon
	}
	c := &Content{Destination: spelled, Type: e.typ, Packager: e.packager}
	switch e.typ {
	case TypeFile, TypeConfig, TypeConfigNoReplace, TypeConfigMissingOK, "":
		e.src = 1 + v.NondetChoice(name+".source", 3)
		c.Source = srcs[e.src]
	case TypeTree:
		e.src = 2
		c.Source = srcs[2]
	case TypeSymlink:
		if v.NondetBool(name + ".dangling") {
			e.src = 4
			c.Source = "nowhere"
		} else {
			e.src = 1
			c.Source = srcs[1]
		}
	case TypeRPMGhost, TypeDir, TypeImplicitDir:
	default:
		e.src = 1
		c.Source = srcs[1]
	}
	return e, c
}

func verifKindOfType(t string) int {
	if t == TypeDir || t == TypeImplicitDir {
		return verifOccDir
	}
	return verifOccFile
}

// verifCheckPlan asserts the success-side clauses of the property on a prepared plan.
func verifCheckPlan(res Contents, occ []verifOccupant) {
	// unique, absolute, clean, strictly sorted, parents present and earlier
	okClean, okSorted, okParents := true, true, true
	for i, c := range res {
		d := c.Destination
		if c.Type == TypeDir || c.Type == TypeImplicitDir {
			if len(d) < 2 || d[len(d)-1] != '/' || !verifIsCleanAbs(d[:len(d)-1]) {
				okClean = false
			}
		} else if !verifIsCleanAbs(d) {
			okClean = false
		}
		if i > 0 && !(res[i-1].Destination < d) {
			okSorted = false
		}
		// every ancestor directory is present before it
		p := d
		if p[len(p)-1] == '/' {
			p = p[:len(p)-1]
		}
		for k := 1; k < len(p); k++ {
			if p[k] != '/' {
				continue
			}
			anc := p[:k] + "/"
			found := false
			for j := 0; j < i; j++ {
				if res[j].Destination == anc && (res[j].Type == TypeDir || res[j].Type == TypeImplicitDir) {
					found = true
				}
			}
			if !found {
				okParents = false
			}
		}
	}
	v.Assert(okClean, "plan-destinations-absolute-clean")
	v.Assert(okSorted, "plan-strictly-sorted-unique")
	v.Assert(okParents, "plan-ancestors-present-and-earlier")

	// exactly the expected occupants (plus implied ancestors)
	okAll := true
	declared := 0
	for _, o := range occ {
		want := o.path
		dir := o.kind == verifOccDir || o.kind == verifOccTreeDir
		if dir {
			want += "/"
		}
		n := 0
		for _, c := range res {
			if c.Destination == want {
				n++
				if dir {
					if c.Type != TypeDir {
						okAll = false
					}
				} else if c.Type != o.typ {
					okAll = false
				}
			}
		}
		if n != 1 {
			okAll = false
		}
		declared++
	}
	v.Assert(okAll, "plan-every-declared-entry-present-once-at-its-destination")
	extra := false
	for _, c := range res {
		if c.Type == TypeImplicitDir {
			// must be an ancestor of some verifOccupant
			p := c.Destination[:len(c.Destination)-1]
			anc := false
			for _, o := range occ {
				if verifIsAncestor(p, o.path) {
					anc = true
				}
			}
			if !anc {
				extra = true
			}
			continue
		}
		hit := false
		for _, o := range occ {
			want := o.path
			if o.kind == verifOccDir || o.kind == verifOccTreeDir {
				want += "/"
			}
			if c.Destination == want {
				hit = true
			}
		}
		if !hit {
			extra = true
		}
	}
	v.Assert(!extra, "plan-nothing-else")
}

func verifPlan(k, ntypes int) { verifPlanOpt(k, ntypes, false) }

// verifPlanOpt: small = every entry is addressed to all packagers and spelled canonically (keeps 3-entry lists tractable).
func verifPlanOpt(k, ntypes int, small bool) {
	verifSmallPlan = small
	verifAllSpellings = k == 1
	srcs := verifPlanFS()
	packager := []string{"deb", "rpm", "apk"}[v.NondetChoice("packager", 3)]
	var raw Contents
	var plan []verifPlanEnt
	for i := 0; i < k; i++ {
		e, c := verifPlanEntry([]string{"e0", "e1", "e2"}[i], ntypes, srcs)
		plan = append(plan, e)
		raw = append(raw, c)
	}
	res, err := PrepareForPackager(raw, 0o022, packager, false, time.Unix(1700000000, 0).UTC())
	v.Reach("K4.ran")

	var occ []verifOccupant
	for i, e := range plan {
		if verifRelevant(packager, e) {
			occ = append(occ, verifExpand(i, e)...)
		}
	}
	verdict := verifOracle(occ, plan)
	collision := err != nil && errors.Is(err, ErrContentCollision)
	if err != nil {
		v.Assert(collision, "only-collision-errors-on-valid-input")
	}
	switch {
	case verdict.sameKind:
		v.Assert(collision, "collision-two-entries-one-destination")
	case verdict.treeRoot:
		v.Assert(collision, "collision-tree-root-on-a-declared-directory")
	case verdict.treeUnder:
		v.Assert(collision, "collision-later-entry-on-a-tree-entry")
	case verdict.fileDir:
		v.Assert(collision, "collision-file-and-directory-on-one-path")
	case verdict.treeOther:
		v.Assert(collision, "collision-file-and-directory-on-one-path-in-a-tree")
	case verdict.treeOver:
		v.Assert(collision, "collision-tree-expanded-over-earlier-entry")
	default:
		v.Assert(err == nil, "no-false-collision")
		if err == nil {
			v.Reach("K4.success")
			verifCheckPlan(res, occ)
		}
	}
}

// Verif_C05_K4_Plan1: one entry of every type, every packager tag, every spelling.
func Verif_C05_K4_Plan1() { verifPlan(1, len(verifPlanTypes)) }

// Verif_C05_K4_Plan2: all pairs of entries over the main entry types.
func Verif_C05_K4_Plan2() { verifPlan(2, v.Bound("K4.types2", 5, len(verifPlanTypes))) }

// Verif_C05_K4_Plan3_Thorough: all triples of entries over {file, dir, symlink, config, tree}, addressed to all packagers.
func Verif_C05_K4_Plan3_Thorough() { verifPlanOpt(3, 5, true) }

// Verif_C05_K4_OrderIndependence: the outcome of PrepareForPackager (error or
// not, and the whole plan) is the same for every iteration order of the Go
// maps it ranges over (glob results, the content map).
func Verif_C05_K4_OrderIndependence() {
	verifSmallPlan = true
	srcs := verifPlanFS()
	var raw1, raw2 Contents
	for i := 0; i < 2; i++ {
		e, c := verifPlanEntry([]string{"e0", "e1"}[i], 4, srcs)
		_ = e
		raw1 = append(raw1, c)
		cp := *c
		raw2 = append(raw2, &cp)
	}
	mt := time.Unix(1700000000, 0).UTC()
	v.PermuteMaps(false)
	res1, err1 := PrepareForPackager(raw1, 0o022, "deb", false, mt)
	v.PermuteMaps(true)
	res2, err2 := PrepareForPackager(raw2, 0o022, "deb", false, mt)
	v.PermuteMaps(false)
	v.Reach("K4.order.ran")
	v.Assert((err1 == nil) == (err2 == nil), "plan-verdict-independent-of-map-order")
	if err1 == nil && err2 == nil {
		same := len(res1) == len(res2)
		if same {
			for i := range res1 {
				if res1[i].Destination != res2[i].Destination || res1[i].Type != res2[i].Type || res1[i].Source != res2[i].Source {
					same = false
				}
			}
		}
		v.Assert(same, "plan-independent-of-map-order")
	}
}
