//go:build verif

package files

import (
	v "github.com/goreleaser/nfpm/v2/internal/zzverif"
)

// isCleanAbs is the independent oracle for "absolute and lexically clean":
// starts with '/', no empty, "." or ".." component, no trailing '/' (except root).
func isCleanAbs(p string) bool {
	if len(p) == 0 || p[0] != '/' {
		return false
	}
	if len(p) == 1 {
		return true
	}
	start := 1
	for i := 1; i <= len(p); i++ {
		if i == len(p) || p[i] == '/' {
			seg := p[start:i]
			if len(seg) == 0 {
				return false
			}
			if seg == "." || seg == ".." {
				return false
			}
			start = i + 1
		}
	}
	return true
}

func hasByte(s string, c byte) bool {
	for i := 0; i < len(s); i++ {
		if s[i] == c {
			return true
		}
	}
	return false
}

// Verif_C05_K1_NormalizeFile: for every byte string up to the bound,
// NormalizeAbsoluteFilePath yields an absolute, lexically clean, idempotent path.
func Verif_C05_K1_NormalizeFile() {
	s := v.NondetString("dst", v.Bound("K1.len", 5, 7))
	r := NormalizeAbsoluteFilePath(s)
	v.Reach("K1.file.ran")
	v.Observe("r", r)
	v.Assert(isCleanAbs(r), "file-clean-abs")
	v.Assert(NormalizeAbsoluteFilePath(r) == r, "file-idempotent")
}

// Verif_C05_K1_NormalizeDir: the directory form is the file form plus exactly one '/'.
func Verif_C05_K1_NormalizeDir() {
	s := v.NondetString("dst", v.Bound("K1.len", 5, 7))
	d := NormalizeAbsoluteDirPath(s)
	v.Reach("K1.dir.ran")
	v.Observe("d", d)
	v.Assert(len(d) > 0 && d[len(d)-1] == '/', "dir-trailing-slash")
	if d != "/" {
		v.Assert(isCleanAbs(d[:len(d)-1]), "dir-clean-abs")
	}
	v.Assert(NormalizeAbsoluteDirPath(d) == d, "dir-idempotent")
	// agrees with the file form of the same spelling without trailing slashes
	t := s
	for len(t) > 0 && t[len(t)-1] == '/' {
		t = t[:len(t)-1]
	}
	f := NormalizeAbsoluteFilePath(t)
	if f == "/" {
		v.Assert(d == "//" || d == "/", "dir-root")
	} else {
		v.Assert(d == f+"/", "dir-is-file-plus-slash")
	}
}
