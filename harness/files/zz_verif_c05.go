//go:build verif

package files

import (
	"errors"
	"time"

	v "github.com/goreleaser/nfpm/v2/internal/zzverif"
	"github.com/goreleaser/nfpm/v2/internal/zzverif/models"
)

// verifIsCleanAbs is the independent oracle for "absolute and lexically clean":
// starts with '/', no empty, "." or ".." component, no trailing '/' (except root).
func verifIsCleanAbs(p string) bool {
	if len(p) == 0 || p[0] != '/' {
		return false
	}
	if len(p) == 1 {
		return true
	}
	start := 1
	for i := 1; i <= len(p); i++ {
		if i == len(p) || p[i] == '/' {
			seg := p[start:i]
			if len(seg) == 0 {
				return false
			}
			if seg == "." || seg == ".." {
				return false
			}
			start = i + 1
		}
	}
	return true
}

func verifHasByte(s string, c byte) bool {
	for i := 0; i < len(s); i++ {
		if s[i] == c {
			return true
		}
	}
	return false
}

// Verif_C05_K1_NormalizeFile: for every byte string up to the bound,
// NormalizeAbsoluteFilePath yields an absolute, lexically clean, idempotent path.
func Verif_C05_K1_NormalizeFile() {
	s := v.NondetString("dst", v.Bound("K1.len", 5, 9))
	r := NormalizeAbsoluteFilePath(s)
	v.Reach("K1.file.ran")
	v.Observe("r", r)
	v.Assert(verifIsCleanAbs(r), "file-clean-abs")
	v.Assert(NormalizeAbsoluteFilePath(r) == r, "file-idempotent")
}

// Verif_C05_K1_NormalizeDir: the directory form is the file form plus exactly one '/'.
func Verif_C05_K1_NormalizeDir() {
	s := v.NondetString("dst", v.Bound("K1.len", 5, 9))
	d := NormalizeAbsoluteDirPath(s)
	v.Reach("K1.dir.ran")
	v.Observe("d", d)
	v.Assert(len(d) > 0 && d[len(d)-1] == '/', "dir-trailing-slash")
	if d != "/" {
		v.Assert(verifIsCleanAbs(d[:len(d)-1]), "dir-clean-abs")
	}
	v.Assert(NormalizeAbsoluteDirPath(d) == d, "dir-idempotent")
	// agrees with the file form of the same spelling without trailing slashes
	t := s
	for len(t) > 0 && t[len(t)-1] == '/' {
		t = t[:len(t)-1]
	}
	f := NormalizeAbsoluteFilePath(t)
	if f == "/" {
		v.Assert(d == "//" || d == "/", "dir-root")
	} else {
		v.Assert(d == f+"/", "dir-is-file-plus-slash")
	}
}

// verifIsCleanRel: relative, no empty/./.. component; optional single trailing '/'.
func verifIsCleanRel(p string, allowTrailing bool) bool {
	if len(p) == 0 {
		return true
	}
	if p[0] == '/' {
		return false
	}
	if allowTrailing && p[len(p)-1] == '/' {
		p = p[:len(p)-1]
		if len(p) == 0 {
			return false
		}
	}
	return verifIsCleanAbs("/" + p)
}

// Verif_C05_K1_Relative: AsRelativePath / AsExplicitRelativePath of a
// normalised destination is the same path without the leading '/', resp.
// with "./" in front; a directory keeps exactly one trailing '/'.
func Verif_C05_K1_Relative() {
	s := v.NondetString("dst", v.Bound("K1.len", 5, 9))
	f := NormalizeAbsoluteFilePath(s)
	d := NormalizeAbsoluteDirPath(s)
	v.Reach("K1.rel.ran")
	rf := AsRelativePath(f)
	rd := AsRelativePath(d)
	v.Observe("rf", rf)
	v.Observe("rd", rd)
	v.Assert(rf == f[1:], "rel-file-is-abs-minus-slash")
	v.Assert(AsExplicitRelativePath(f) == "./"+f[1:], "explicit-rel-file")
	if f != "/" {
		// (that the directory spelling keeps its trailing '/' is a C04 clause and is asserted there)
		v.Assert(rd == f[1:]+"/" || rd == f[1:], "rel-dir-is-abs-minus-slash")
		v.Assert(verifIsCleanRel(rd, true) && verifIsCleanRel(rf, false), "rel-clean")
	}
}

// Verif_C05_K1_Parents: sortedParents returns exactly the proper ancestors of
// the normalised destination, shortest first.
func Verif_C05_K1_Parents() {
	s := v.NondetString("dst", v.Bound("K1.plen", 5, 9))
	f := NormalizeAbsoluteFilePath(s)
	ps := sortedParents(f)
	v.Reach("K1.parents.ran")
	// reference: every prefix of f that ends right before a '/' (excluding root)
	var want []string
	for i := 1; i < len(f); i++ {
		if f[i] == '/' {
			want = append(want, f[1:i])
		}
	}
	v.Assert(len(ps) == len(want), "parents-count")
	if len(ps) == len(want) {
		ok := true
		for i := range ps {
			if NormalizeAbsoluteDirPath(ps[i]) != "/"+want[i]+"/" {
				ok = false
			}
		}
		v.Assert(ok, "parents-are-the-proper-ancestors-in-order")
	}
}

func verifC05content(prefix string, n int) *Content {
	return &Content{
		Destination: v.NondetString(prefix+".dst", n),
		Type:        v.NondetString(prefix+".type", n),
		Packager:    v.NondetString(prefix+".pkgr", n),
	}
}

// Verif_C05_K2_Order: Contents.Less is a strict total order on
// (Destination, Type, Packager) and orders a directory before what it contains.
func Verif_C05_K2_Order() {
	n := v.Bound("K2.len", 2, 3)
	c := Contents{verifC05content("a", n), verifC05content("b", n), verifC05content("c", n)}
	v.Reach("K2.ran")
	ab, ba := c.Less(0, 1), c.Less(1, 0)
	bc, ac := c.Less(1, 2), c.Less(0, 2)
	v.Assert(!c.Less(0, 0), "less-irreflexive")
	v.Assert(!(ab && ba), "less-asymmetric")
	v.Assert(!(ab && bc) || ac, "less-transitive")
	same := c[0].Destination == c[1].Destination && c[0].Type == c[1].Type && c[0].Packager == c[1].Packager
	v.Assert(same || ab || ba, "less-total")
	if c[0].Destination != c[1].Destination {
		v.Assert(ab == (c[0].Destination < c[1].Destination), "less-by-destination-first")
	}
}

// Verif_C05_K2_DirBeforeChildren: "p/" sorts before every path that extends it.
func Verif_C05_K2_DirBeforeChildren() {
	n := v.Bound("K2.plen", 3, 4)
	p := v.NondetString("p", n)
	rest := v.NondetStringRange("rest", 1, n)
	c := Contents{{Destination: p + "/"}, {Destination: p + "/" + rest}}
	v.Reach("K2.dir.ran")
	v.Assert(c.Less(0, 1) && !c.Less(1, 0), "dir-sorts-before-its-children")
}

var verifC05types = []string{TypeFile, TypeDir, TypeImplicitDir, TypeTree, TypeSymlink, TypeConfig, TypeConfigNoReplace,
	TypeConfigMissingOK, TypeRPMGhost, TypeRPMDoc, TypeRPMLicence, TypeRPMLicense, TypeRPMReadme, TypeDebChangelog, ""}

// Verif_C05_K3_Relevance: an entry is relevant iff it is addressed to this
// packager (or to all) and its type exists there.
func Verif_C05_K3_Relevance() {
	pk := v.NondetString("packager", v.Bound("K3.len", 4, 9))
	tag := v.NondetString("tag", v.Bound("K3.len", 4, 9))
	var typ string
	k := v.NondetChoice("type", len(verifC05types)+1)
	if k < len(verifC05types) {
		typ = verifC05types[k]
	} else {
		typ = v.NondetString("othertype", 3)
	}
	got := isRelevantForPackager(pk, &Content{Type: typ, Packager: tag})
	v.Reach("K3.ran")
	rpmOnly := typ == "ghost" || typ == "doc" || typ == "licence" || typ == "license" || typ == "readme"
	debOnly := typ == "debian changelog"
	want := true
	if pk != "" {
		if tag != "" && tag != pk {
			want = false
		}
		if rpmOnly && pk != "rpm" {
			want = false
		}
		if debOnly && pk != "deb" {
			want = false
		}
	}
	v.Assert(got == want, "relevance-matches-property-text")
}

// Verif_C05_K6_FilesystemOwnedDirs: every directory of the two lists of
// directories owned by the filesystem package is recognised (a tree that passes
// through one of them must leave it an implied directory, which rpm does not
// claim), and a path that is not listed is not.
func Verif_C05_K6_FilesystemOwnedDirs() {
	v.Reach("K6.ran")
	ok := true
	for _, p := range fsPaths {
		if !ownedByFilesystem(p) || !ownedByFilesystem(p+"/") {
			ok = false
		}
	}
	v.Assert(ok, "every-filesystem-directory-is-recognised")
	ok = true
	for _, p := range logrotatePaths {
		if !ownedByFilesystem(p) {
			ok = false
		}
	}
	v.Assert(ok, "every-logrotate-directory-is-recognised")
	s := "/" + v.NondetStringRange("other", 1, 3)
	v.Assume(v.AllIn(s[1:], "q-z"))
	v.Assume(s != "/run" && s != "/srv" && s != "/sys" && s != "/tmp" && s != "/usr" && s != "/var" && s != "/sbin" && s != "/root" && s != "/proc" && s != "/opt")
	v.Assert(!ownedByFilesystem(s), "unlisted-directory-is-not-filesystem-owned")
}

// Verif_C13_PackagerTag: the per-packager clause of C13 at the planning
// kernel: an entry addressed to one packager is never relevant for another,
// whatever its type (including the types that belong to one format).
func Verif_C13_PackagerTag() {
	formats := []string{"deb", "rpm", "apk", "archlinux", "ipk"}
	pk := formats[v.NondetChoice("packager", len(formats))]
	tag := formats[v.NondetChoice("tag", len(formats))]
	typ := verifC05types[v.NondetChoice("type", len(verifC05types))]
	got := isRelevantForPackager(pk, &Content{Type: typ, Packager: tag})
	v.Reach("C13.tag.ran")
	if tag != pk {
		v.Assert(!got, "entry-addressed-to-another-packager-is-never-relevant")
	}
}

// Verif_C05_K7_FlattenCollision: a destination ending in '/' places every
// match at dst/<base name>; two matches of ONE entry with the same base name
// (in different sub-directories of the source) would occupy one destination:
// preparation must fail with the content-collision error, whatever the order
// in which the matches are visited.
func Verif_C05_K7_FlattenCollision() {
	mt := time.Unix(1600000000, 0).UTC()
	models.AddDir("/s", 0o755, mt)
	d := models.AddDir("/s/conf", 0o755, mt)
	models.AddDir("/s/conf/a", 0o755, mt)
	models.AddDir("/s/conf/b", 0o755, mt)
	same := v.NondetBool("same.base.name")
	models.AddFile("/s/conf/a/x.conf", []byte("A"), 0o644, mt)
	if same {
		models.AddFile("/s/conf/b/x.conf", []byte("B"), 0o644, mt)
	} else {
		models.AddFile("/s/conf/b/y.conf", []byte("B"), 0o644, mt)
	}
	v.PermuteMaps(true)
	res, err := PrepareForPackager(Contents{{Source: d, Destination: "/etc/app/"}}, 0o022, "deb", false, mt)
	v.PermuteMaps(false)
	v.Reach("K7.ran")
	if same {
		v.Assert(errors.Is(err, ErrContentCollision), "collision-two-matches-of-one-entry-on-one-destination")
		return
	}
	v.Assert(err == nil, "no-false-collision")
	n := 0
	for _, c := range res {
		if c.Type == TypeFile {
			n++
		}
	}
	v.Assert(n == 2, "both-matches-placed-into-the-directory")
}

// Verif_C07_RelativeSources: a tree referenced as the working directory itself
// (".") is planned exactly like the same directory referenced by its absolute
// path, dot-files at its top level included.
func Verif_C07_RelativeSources() {
	mt := time.Unix(1600000000, 0).UTC()
	models.AddDir("/work", 0o755, mt)
	root := models.AddDir("/work/t", 0o755, mt)
	models.AddFile("/work/t/.env", []byte("E"), 0o644, mt)
	models.AddDir("/work/t/.config", 0o755, mt)
	models.AddFile("/work/t/.config/s.ini", []byte("S"), 0o644, mt)
	models.AddFile("/work/t/app", []byte("A"), 0o755, mt)
	models.Chdir("/work/t")
	rel := []string{".", "./", "../t"}[v.NondetChoice("relative.spelling", 3)]
	a, errA := PrepareForPackager(Contents{{Source: root, Destination: "/opt/demo", Type: TypeTree}}, 0o022, "deb", false, mt)
	b, errB := PrepareForPackager(Contents{{Source: rel, Destination: "/opt/demo", Type: TypeTree}}, 0o022, "deb", false, mt)
	v.Reach("C07.relative.ran")
	v.Assert(errA == nil && errB == nil, "tree-of-the-working-directory-is-planned")
	if errA != nil || errB != nil {
		return
	}
	same := len(a) == len(b)
	if same {
		for i := range a {
			if a[i].Destination != b[i].Destination || a[i].Type != b[i].Type {
				same = false
			}
		}
	}
	v.Assert(same, "relative-and-absolute-source-give-the-same-plan")
	found := false
	for _, c := range b {
		if c.Destination == "/opt/demo/.env" {
			found = true
		}
	}
	v.Assert(found, "top-level-dot-file-keeps-its-name")
}
