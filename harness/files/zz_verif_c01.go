//go:build verif

package files

import (
	"io/fs"
	"time"

	v "github.com/goreleaser/nfpm/v2/internal/zzverif"
	"github.com/goreleaser/nfpm/v2/internal/zzverif/models"
)

// verifTime: the zero time, or an arbitrary whole second in [0, 2^33).
func verifTime(name string) time.Time {
	if v.NondetBool(name + ".zero") {
		return time.Time{}
	}
	sec := v.NondetI64(name + ".sec")
	v.Assume(sec >= 0)
	v.Assume(sec < 1<<33)
	return time.Unix(sec, 0).UTC()
}

const verifChmodBits = fs.ModePerm | fs.ModeSetuid | fs.ModeSetgid | fs.ModeSticky

// Verif_C01_A_Defaults: Content.WithFileInfoDefaults on an arbitrary entry:
// explicit non-zero mode verbatim, otherwise source mode minus umask (0755 for
// directories); owner/group default root; mtime = explicit, else package
// mtime, else source mtime; the size is the source's size.
func Verif_C01_A_Defaults() {
	typ := verifC05types[v.NondetChoice("type", len(verifC05types))]
	hasInfo := v.NondetBool("hasInfo")
	mode := fs.FileMode(v.NondetU32("mode"))
	umask := fs.FileMode(v.NondetU32("umask"))
	owner := v.NondetString("owner", 2)
	group := v.NondetString("group", 2)
	emt := verifTime("entry.mtime")
	pmt := verifTime("pkg.mtime")
	statMode := fs.FileMode(v.NondetU32("stat.mode"))
	v.Assume(statMode&^verifChmodBits == 0)
	content := v.NondetBytes("content", 3)
	smt := verifTime("stat.mtime")
	v.Assume(!smt.IsZero())
	src := ""
	stats := false
	switch v.NondetChoice("source", 3) {
	case 1:
		src = "/nonexistent/zzverif-src"
	case 2:
		src = models.AddFile("/src/f", content, statMode, smt)
		stats = true
	}
	c := &Content{Source: src, Destination: "/d/f", Type: typ}
	if hasInfo {
		c.FileInfo = &ContentFileInfo{Owner: owner, Group: group, Mode: mode, MTime: emt}
	}
	r := c.WithFileInfoDefaults(umask, pmt)
	v.Reach("C01.a.ran")
	v.Observe("mode", uint32(r.FileInfo.Mode))
	v.Observe("owner", r.FileInfo.Owner)
	v.Observe("size", r.FileInfo.Size)
	v.Observe("mtime", r.FileInfo.MTime.Unix())

	isDir := typ == TypeDir || typ == TypeImplicitDir
	// --- mode
	if hasInfo && mode != 0 {
		v.Assert(r.FileInfo.Mode == mode, "explicit-mode-verbatim")
	} else if isDir {
		v.Assert(r.FileInfo.Mode == 0o755, "dir-default-mode-0755")
	} else if stats {
		v.Assert(r.FileInfo.Mode == statMode&^umask, "mode-is-source-mode-minus-umask")
	} else {
		v.Assert(r.FileInfo.Mode == 0, "no-mode-without-source")
	}
	// --- owner / group
	if hasInfo && owner != "" {
		v.Assert(r.FileInfo.Owner == owner, "owner-verbatim")
	} else {
		v.Assert(r.FileInfo.Owner == "root", "owner-defaults-root")
	}
	if hasInfo && group != "" {
		v.Assert(r.FileInfo.Group == group, "group-verbatim")
	} else {
		v.Assert(r.FileInfo.Group == "root", "group-defaults-root")
	}
	// --- mtime
	switch {
	case hasInfo && !emt.IsZero():
		v.Assert(r.FileInfo.MTime.Equal(emt), "mtime-explicit")
	case !pmt.IsZero():
		v.Assert(r.FileInfo.MTime.Equal(pmt), "mtime-package")
	case stats:
		v.Assert(r.FileInfo.MTime.Equal(smt), "mtime-source")
	default:
		v.Assert(r.FileInfo.MTime.IsZero(), "mtime-none")
	}
	// --- type default and identity fields
	if typ == "" {
		v.Assert(r.Type == TypeFile, "type-defaults-to-file")
	} else {
		v.Assert(r.Type == typ, "type-kept")
	}
	v.Assert(r.Destination == c.Destination && r.Source == c.Source, "src-dst-kept")
}
