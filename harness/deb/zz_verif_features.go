//go:build verif

package deb

import (
	"archive/tar"
	"bytes"
	"crypto/md5"
	"strconv"
	"time"

	"github.com/goreleaser/nfpm/v2"
	"github.com/goreleaser/nfpm/v2/files"
	v "github.com/goreleaser/nfpm/v2/internal/zzverif"
	"github.com/goreleaser/nfpm/v2/internal/zzverif/models"
	"github.com/goreleaser/nfpm/v2/internal/zzverif/scen"
)

func verifBuild(sc *scen.Scenario) (debView, bool) {
	var buf bytes.Buffer
	err := Default.Package(sc.Info, &buf)
	v.Assert(err == nil, "deb-packages")
	if err != nil {
		return debView{}, false
	}
	d, ok := verifDecodeDeb(buf.Bytes())
	v.Assert(ok, "deb-decodes")
	return d, ok
}

// Verif_C03_DebDigests: md5sums has one line per regular payload file, with
// the MD5 of the bytes shipped for that member and its relative name.
func Verif_C03_DebDigests() {
	sc := scen.Payload(scen.Options{SymContent: true, SymDst: true, Second: -1})
	if v.NondetBool("name.with.a.percent.sign") {
		// names are data: a '%' in one must come out as it is (url-encoded names, "100%.txt")
		pc := models.AddFile("/src/pc", []byte("P"), 0o644, sc.MTime)
		sc.Info.Contents = append(sc.Info.Contents, &files.Content{Source: pc, Destination: "/zz/a%sb%d"})
	}
	d, ok := verifBuild(sc)
	v.Reach("C03.deb.ran")
	if !ok {
		return
	}
	want := ""
	for _, e := range d.data {
		if e.Type == '0' {
			sum := md5.Sum(e.Data)
			want += v.Hex(sum[:]) + "  " + e.Name + "\n"
		}
	}
	m := models.Find(d.control, "./md5sums")
	v.Assert(m != nil, "deb-md5sums-present")
	if m != nil {
		v.Assert(string(m.Data) == want, "deb-md5sums-match-shipped-bytes")
	}
	ctl := models.Find(d.control, "./control")
	v.Assert(ctl != nil, "deb-control-present")
	if ctl != nil {
		sz, ok := v.Field822(string(ctl.Data), "Installed-Size")
		v.Assert(ok && sz == "0", "deb-installed-size-kib-small-payload")
	}
}

// Verif_C03_DebInstalledSize: two files of 700 and 600 arbitrary bytes give Installed-Size 1 (KiB, floor of the sum).
func Verif_C03_DebInstalledSize() {
	mt := time.Unix(1700000000, 0).UTC()
	a := v.NondetBytes("a", 0)
	_ = a
	big1 := make([]byte, 700)
	big2 := make([]byte, 600)
	big1[0], big2[599] = v.NondetByte("b1"), v.NondetByte("b2")
	s1 := models.AddFile("/src/big1", big1, 0o644, mt)
	s2 := models.AddFile("/src/big2", big2, 0o644, mt)
	info := &nfpm.Info{Name: "pkg", Arch: "amd64", Platform: "linux", Version: "1.0.0", Description: "d", Maintainer: "m", MTime: mt}
	info.Umask = 0o022
	info.Contents = files.Contents{{Source: s1, Destination: "/opt/a"}, {Source: s2, Destination: "/opt/b"}}
	sc := &scen.Scenario{Info: info}
	d, ok := verifBuild(sc)
	v.Reach("C03.deb.size.ran")
	if !ok {
		return
	}
	ctl := models.Find(d.control, "./control")
	if ctl == nil {
		v.Assert(false, "deb-control-present")
		return
	}
	sz, ok := v.Field822(string(ctl.Data), "Installed-Size")
	v.Assert(ok && sz == "1", "deb-installed-size-is-floor-of-sum-in-kib")
}

// Verif_C03_DebInstalledSizeKernel: for an arbitrary byte count the rendered field is count/1024.
func Verif_C03_DebInstalledSizeKernel() {
	n := v.NondetI64("instsize")
	v.Assume(n >= 0)
	v.Assume(n < 1<<30)
	info := &nfpm.Info{Name: "pkg", Arch: "amd64", Platform: "linux", Version: "1.0.0", Description: "d", Maintainer: "m", MTime: time.Unix(1700000000, 0).UTC()}
	out, err := createControl(n, nil, info)
	v.Reach("C03.deb.kernel.ran")
	v.Assert(err == nil, "deb-control-builds")
	if err != nil {
		return
	}
	kind, tarBytes, _, ok := models.Decompress(out)
	v.Assert(ok && kind == models.KindGzip, "deb-control-gzip")
	es, _, ok2 := models.DecodeTar(tarBytes)
	if !ok || !ok2 {
		return
	}
	ctl := models.Find(es, "./control")
	if ctl == nil {
		v.Assert(false, "deb-control-present")
		return
	}
	sz, found := v.Field822(string(ctl.Data), "Installed-Size")
	v.Assert(found && sz == strconv.FormatInt(n/1024, 10), "deb-installed-size-is-bytes-div-1024")
}

// Verif_C04_DebStructure: ar members in order, debian-binary content, data member named after the compression.
func Verif_C04_DebStructure() {
	sc := scen.Payload(scen.Options{Second: 2})
	k := v.NondetChoice("compression", len(verifCompressions))
	sc.Info.Deb.Compression = verifCompressions[k]
	d, ok := verifBuild(sc)
	v.Reach("C04.deb.ran")
	if !ok {
		return
	}
	v.Assert(len(d.members) == 3, "deb-three-members-when-unsigned")
	v.Assert(d.members[0].Name == "debian-binary" && string(d.members[0].Body) == "2.0\n", "deb-debian-binary-first")
	v.Assert(d.members[1].Name == "control.tar.gz", "deb-control-second")
	wantName := []string{"data.tar.gz", "data.tar.gz", "data.tar.xz", "data.tar.zst", "data.tar"}[k]
	wantKind := []byte{models.KindGzip, models.KindGzip, models.KindXz, models.KindZstd, 0}[k]
	v.Assert(d.dataName == wantName && d.dataKind == wantKind, "deb-data-member-matches-compression")
	v.Assert(len(d.control) >= 3 && d.control[0].Name == "./control" && d.control[1].Name == "./md5sums" && d.control[2].Name == "./conffiles", "deb-control-members")
	seen := map[string]bool{}
	okNames := true
	for _, e := range d.data {
		if seen[e.Name] || len(e.Name) < 2 || e.Name[:2] != "./" {
			okNames = false
		}
		seen[e.Name] = true
		if e.Type == '5' && e.Name[len(e.Name)-1] != '/' {
			okNames = false
		}
	}
	v.Assert(okNames, "deb-member-names-unique-dot-slash-dirs-end-in-slash")
	// dpkg's own tar reader knows the GNU extensions but not PAX: every data and
	// control member is written with the GNU format so that long names never turn into PAX records
	okFmt := true
	for _, e := range d.data {
		if e.Format != int(tar.FormatGNU) {
			okFmt = false
		}
	}
	for _, e := range d.control {
		if e.Format != int(tar.FormatGNU) {
			okFmt = false
		}
	}
	v.Assert(okFmt, "deb-tar-members-use-the-gnu-format")
}

// Verif_C08_DebConffiles: conffiles lists exactly the config* entries by absolute path.
func Verif_C08_DebConffiles() {
	sc := scen.Payload(scen.Options{SymType: true, SymDst: true, Second: -1})
	d, ok := verifBuild(sc)
	v.Reach("C08.deb.ran")
	if !ok {
		return
	}
	want := ""
	n := 0
	for _, w := range sc.ForFormat("deb") {
		if w.Type == files.TypeConfig || w.Type == files.TypeConfigNoReplace || w.Type == files.TypeConfigMissingOK {
			if n > 0 {
				want += "\n"
			}
			want += w.Path
			n++
		}
	}
	want += "\n"
	m := models.Find(d.control, "./conffiles")
	v.Assert(m != nil && string(m.Data) == want, "deb-conffiles-lists-exactly-the-config-entries")
}

var verifDebSlots = []string{"preinst", "postinst", "prerm", "postrm", "rules", "templates", "config"}

// Verif_C09_DebScripts: each configured script is in the control archive under
// its dpkg name with its exact bytes and mode; unconfigured slots are absent.
func Verif_C09_DebScripts() {
	sc := scen.Payload(scen.Options{UmaskChoice: true})
	mt := time.Unix(1500000000, 0).UTC()
	var body [7][]byte
	var set [7]bool
	nlen := v.Bound("C09.len", 2, 6) + 1
	base := v.NondetChoice("script.len", nlen) // one fork; the slots get different lengths (incl. empty)
	for i, slot := range verifDebSlots {
		set[i] = v.NondetBool("has." + slot)
		if set[i] {
			body[i] = []byte(v.NondetStringN("script."+slot, (base+i)%nlen))
			p := models.AddFile("/scripts/"+slot, body[i], 0o600, mt)
			switch i {
			case 0:
				sc.Info.Scripts.PreInstall = p
			case 1:
				sc.Info.Scripts.PostInstall = p
			case 2:
				sc.Info.Scripts.PreRemove = p
			case 3:
				sc.Info.Scripts.PostRemove = p
			case 4:
				sc.Info.Deb.Scripts.Rules = p
			case 5:
				sc.Info.Deb.Scripts.Templates = p
			case 6:
				sc.Info.Deb.Scripts.Config = p
			}
		}
	}
	// two events may be served by one script file: both slots must then carry it
	if set[0] && set[1] && v.NondetBool("share.one.file") {
		sc.Info.Scripts.PostInstall = sc.Info.Scripts.PreInstall
		body[1] = body[0]
	}
	d, ok := verifBuild(sc)
	v.Reach("C09.deb.ran")
	if !ok {
		return
	}
	for i, slot := range verifDebSlots {
		m := models.Find(d.control, "./"+slot)
		if !set[i] {
			v.Assert(m == nil, "deb-unconfigured-slot-absent")
			continue
		}
		v.Assert(m != nil, "deb-configured-slot-present")
		if m != nil {
			v.Assert(bytes.Equal(m.Data, body[i]), "deb-script-bytes-verbatim-in-its-slot")
			wantMode := int64(0o755)
			if slot == "templates" {
				wantMode = 0o644
			}
			v.Assert(m.Mode == wantMode, "deb-script-mode")
		}
	}
}

// Verif_C03_DebChangelogDigests: with a generated changelog (its text is an
// opaque model value) md5sums still has one correct line per regular member,
// the changelog included, also for the files packed after it.
func Verif_C03_DebChangelogDigests() { verifDebChangelog() }

// Verif_C04_DebChangelogStructure: the same package seen as an archive (member order and uniqueness with the generated changelog).
func Verif_C04_DebChangelogStructure() { verifDebChangelog() }

func verifDebChangelog() {
	sc := scen.Payload(scen.Options{SymContent: true, Second: 3})
	mt := time.Unix(1500000000, 0).UTC()
	sc.Info.Changelog = models.AddFile("/src/changelog.yaml", []byte("- semver: 1.0.0\n"), 0o644, mt)
	// one more regular file that sorts after /usr/share/doc/pkg/changelog.Debian.gz
	if v.NondetBool("another.file.in.the.doc.directory") { // otherwise the changelog alone implies its parent directories
		late := v.NondetBytes("late.content", 2)
		sc.Info.Contents = append(sc.Info.Contents, &files.Content{Source: models.AddFile("/src/late", late, 0o644, mt), Destination: "/usr/share/doc/pkg/copyright"})
	}
	d, ok := verifBuild(sc)
	v.Reach("C03.deb.changelog.ran")
	if !ok {
		return
	}
	want := ""
	sawChangelog := false
	for _, e := range d.data {
		if e.Type == '0' {
			sum := md5.Sum(e.Data)
			want += v.Hex(sum[:]) + "  " + e.Name + "\n"
			if e.Name == "./usr/share/doc/pkg/changelog.Debian.gz" {
				sawChangelog = true
			}
		}
	}
	v.Assert(sawChangelog, "deb-changelog-is-shipped")
	// C04 for the generated member too: unique names, every parent directory earlier in the archive
	okOrder := true
	for i, e := range d.data {
		n := e.Name
		if len(n) > 0 && n[len(n)-1] == '/' {
			n = n[:len(n)-1]
		}
		for j := 0; j < i; j++ {
			if d.data[j].Name == e.Name {
				okOrder = false
			}
		}
		for k := len(n) - 1; k > 1; k-- {
			if n[k] != '/' {
				continue
			}
			parent := n[:k+1]
			found := false
			for j := 0; j < i; j++ {
				if d.data[j].Name == parent {
					found = true
				}
			}
			if !found {
				okOrder = false
			}
		}
	}
	v.Assert(okOrder, "deb-changelog-member-has-its-parents-before-it")
	m := models.Find(d.control, "./md5sums")
	v.Assert(m != nil && string(m.Data) == want, "deb-md5sums-match-shipped-bytes-with-changelog")
}
