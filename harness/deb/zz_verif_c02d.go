//go:build verif

package deb

import (
	"bytes"

	v "github.com/goreleaser/nfpm/v2/internal/zzverif"
)

// verifDescLines: what a deb822 parser recovers from the Description field of a
// control file: the synopsis, then every continuation line (leading space
// removed, " ." meaning an empty line). ok=false if the field is malformed: a
// continuation line that is empty or does not start with a space would end
// the field (or the stanza).
func verifDescLines(text string) (lines []string, ok bool) {
	in := false
	for _, l := range v.Lines(text) {
		if !in {
			if v.HasPrefix(l, "Description: ") {
				lines = append(lines, l[len("Description: "):])
				in = true
			} else if l == "Description:" {
				lines = append(lines, "")
				in = true
			}
			continue
		}
		blank := true
		for i := 0; i < len(l); i++ {
			if l[i] != ' ' && l[i] != '\t' {
				blank = false
			}
		}
		if blank {
			// an empty line, or one of only spaces and tabs (deb822: such a
			// line separates stanzas too), ends the stanza: what follows is lost
			return lines, false
		}
		if l[0] != ' ' {
			break // next field
		}
		if l == " ." {
			lines = append(lines, "")
		} else {
			lines = append(lines, l[1:])
		}
	}
	return lines, in
}

func verifTrimmedLines(desc string) []string {
	trim := func(s string) string {
		for len(s) > 0 && (s[0] == ' ' || s[0] == '\n') {
			s = s[1:]
		}
		for len(s) > 0 && (s[len(s)-1] == ' ' || s[len(s)-1] == '\n') {
			s = s[:len(s)-1]
		}
		return s
	}
	var out []string
	for _, l := range v.Lines(trim(desc) + "\n") {
		out = append(out, trim(l))
	}
	if len(out) == 0 {
		out = []string{""}
	}
	return out
}

// Verif_C02_D_DebDescription: for every description over {letter, space,
// newline} up to the bound, the control file's Description is a well-formed
// folded field whose synopsis is the first line and whose unfolding gives back
// the (whitespace-trimmed) lines, blank lines included; the fields after it survive.
func Verif_C02_D_DebDescription() {
	desc := v.NondetString("description", v.Bound("C02.desclen", 6, 9))
	v.Assume(v.AllIn(desc, "ab \n"))
	info := verifInfo("1.0.0", "", "", "", "")
	info.Description = desc
	info.Deb.Fields = map[string]string{"Zz": "tail"}
	var buf bytes.Buffer
	err := writeControl(&buf, controlData{Info: info})
	v.Reach("C02.d.deb.ran")
	v.Assert(err == nil, "deb-control-renders")
	got, ok := verifDescLines(buf.String())
	v.Assert(ok, "deb-description-is-a-well-formed-folded-field")
	want := verifTrimmedLines(desc)
	same := len(got) == len(want)
	if same {
		for i := range got {
			if got[i] != want[i] {
				same = false
			}
		}
	}
	v.Assert(same, "deb-description-lines-recovered")
	tail, has := v.Field822(buf.String(), "Zz")
	v.Assert(has && tail == "tail", "deb-fields-after-description-survive")
}
