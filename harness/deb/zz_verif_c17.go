//go:build verif

package deb

import (
	"io"
	"time"

	"github.com/goreleaser/nfpm/v2"
	v "github.com/goreleaser/nfpm/v2/internal/zzverif"
)

func verifInEnum(s string, enum []string) bool {
	for _, e := range enum {
		if s == e {
			return true
		}
	}
	return false
}

func verifC17Info() *nfpm.Info {
	return &nfpm.Info{Name: "p", Arch: "amd64", Platform: "linux", Version: "1.0.0", Description: "d", Maintainer: "m", MTime: time.Unix(1700000000, 0).UTC()}
}

// Verif_C17_DebCompression: every value of deb.compression that the packager
// accepts is allowed by the schema enum of the field (read from the struct tag
// of the current tree), and every enum value is accepted.
func Verif_C17_DebCompression() {
	enum := v.SchemaEnums["Deb.Compression"]
	v.Reach("C17.deb.compression.ran")
	v.Assert(len(enum) > 0, "deb-compression-has-a-schema-enum")
	for _, e := range enum {
		info := verifC17Info()
		info.Deb.Compression = e
		_, _, _, _, err := createDataTarball(info)
		v.Assert(err == nil, "deb-compression-enum-value-is-accepted")
	}
	s := v.NondetString("compression", v.Bound("C17.len", 5, 8))
	info := verifC17Info()
	info.Deb.Compression = s
	_, _, _, _, err := createDataTarball(info)
	if err == nil && s != "" {
		v.Assert(verifInEnum(s, enum), "deb-compression-accepted-value-is-in-the-schema-enum")
	}
}

// Verif_C17_DebSignature: the same for deb.signature.type and deb.signature.method.
func Verif_C17_DebSignature() {
	typeEnum := v.SchemaEnums["DebSignature.Type"]
	methodEnum := v.SchemaEnums["DebSignature.Method"]
	v.Reach("C17.deb.signature.ran")
	fn := func(r io.Reader) ([]byte, error) { return []byte("S"), nil }
	for _, e := range typeEnum {
		info := verifC17Info()
		info.Deb.Signature.Type, info.Deb.Signature.SignFn = e, fn
		_, _, err := doSign(info, []byte("a"), []byte("b"), []byte("c"), "data.tar.gz")
		v.Assert(err == nil, "deb-signature-type-enum-value-is-accepted")
	}
	t := v.NondetString("type", v.Bound("C17.len", 5, 7))
	info := verifC17Info()
	info.Deb.Signature.Type, info.Deb.Signature.SignFn = t, fn
	_, _, err := doSign(info, []byte("a"), []byte("b"), []byte("c"), "data.tar.gz")
	if err == nil && t != "" {
		v.Assert(verifInEnum(t, typeEnum), "deb-signature-type-accepted-value-is-in-the-schema-enum")
	}
	// both documented methods must be allowed by the schema
	for _, m := range []string{"debsign", "dpkg-sig"} {
		info := verifC17Info()
		info.Deb.Signature.Method, info.Deb.Signature.SignFn = m, fn
		_, _, err := doSign(info, []byte("a"), []byte("b"), []byte("c"), "data.tar.gz")
		if err == nil {
			v.Assert(verifInEnum(m, methodEnum), "deb-signature-method-accepted-value-is-in-the-schema-enum")
		}
	}
}
