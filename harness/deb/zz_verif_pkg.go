//go:build verif

package deb

import (
	"bytes"

	v "github.com/goreleaser/nfpm/v2/internal/zzverif"
	"github.com/goreleaser/nfpm/v2/internal/zzverif/models"
	"github.com/goreleaser/nfpm/v2/internal/zzverif/scen"
)

type debView struct {
	members  []models.ArMember
	control  []models.Entry
	data     []models.Entry
	dataName string
	dataKind byte
}

var verifCompressions = []string{"", "gzip", "xz", "zstd", "none"}

// verifDecodeDeb opens a .deb with the independent decoders.
func verifDecodeDeb(out []byte) (debView, bool) {
	var d debView
	ms, ok := models.DecodeAr(out)
	if !ok || len(ms) < 3 {
		return d, false
	}
	d.members = ms
	kind, tarBytes, rest, ok := models.Decompress(ms[1].Body)
	if !ok || kind != models.KindGzip || len(rest) != 0 {
		return d, false
	}
	es, complete, ok := models.DecodeTar(tarBytes)
	if !ok || !complete {
		return d, false
	}
	d.control = es
	d.dataName = ms[2].Name
	body := ms[2].Body
	if d.dataName != "data.tar" {
		k, tb, rest, ok := models.Decompress(body)
		if !ok || len(rest) != 0 {
			return d, false
		}
		d.dataKind = k
		body = tb
	}
	es, complete, ok = models.DecodeTar(body)
	if !ok || !complete {
		return d, false
	}
	d.data = es
	return d, true
}

func Verif_C01_C_DebModes()  { verifDebPayload(scen.Options{SymModes: true, Second: -1}) }
func Verif_C01_C_DebOwners() { verifDebPayload(scen.Options{SymOwners: true, Second: 1}) }
func Verif_C01_C_DebTimes()  { verifDebPayload(scen.Options{SymTimes: true, Second: 3}) }
func Verif_C01_C_DebContent() {
	verifDebPayload(scen.Options{SymContent: true, SymDst: true, SymType: true, Second: -1})
}

func verifDebPayload(o scen.Options) {
	sc := scen.Payload(o)
	sc.Info.Deb.Compression = verifCompressions[v.NondetChoice("compression", len(verifCompressions))]
	var buf bytes.Buffer
	err := Default.Package(sc.Info, &buf)
	v.Reach("C01.deb.ran")
	v.Assert(err == nil, "deb-packages")
	if err != nil {
		return
	}
	d, ok := verifDecodeDeb(buf.Bytes())
	v.Assert(ok, "deb-decodes")
	if !ok {
		return
	}
	wants := sc.ForFormat("deb")
	v.Assert(len(d.data) == len(wants), "deb-entry-count")
	if len(d.data) != len(wants) {
		return
	}
	for i, w := range wants {
		e := d.data[i]
		name := "." + w.Path
		switch w.Kind {
		case 'f':
			v.Assert(e.Name == name && e.Type == '0', "deb-file-name-type")
			v.Assert(bytes.Equal(e.Data, w.Data), "deb-file-bytes")
			v.Assert(e.Mode == scen.UnixMode(w.Mode), "deb-file-mode")
			v.Assert(e.MTime == w.MTime.Unix(), "deb-file-mtime")
			v.Assert(e.Uname == w.Owner && e.Gname == w.Group, "deb-file-owner-group")
		case 'd', 'i':
			v.Assert(e.Name == name+"/" && e.Type == '5', "deb-dir-name-type")
			if w.FromTree {
				v.Assert(e.Mode == scen.UnixMode(w.Mode), "deb-dir-mode-of-tree-directory")
			} else {
				v.Assert(e.Mode == scen.UnixMode(w.Mode), "deb-dir-mode")
			}
			v.Assert(e.Uname == w.Owner && e.Gname == w.Group, "deb-dir-owner-group")
		case 'l':
			v.Assert(e.Name == name && e.Type == '2', "deb-symlink-name-type")
			v.Assert(e.Link == w.Link, "deb-symlink-target")
		}
	}
}

// Verif_C01_C_DebSources: a tree, a directory source expanded by the glob model, an on-disk symlink.
func Verif_C01_C_DebSources() { verifDebPayload(scen.Options{Second: -4}) }

// Verif_C01_C_DebAll_Thorough: modes, umask, owners, content, destination and entry type symbolic at once.
func Verif_C01_C_DebAll_Thorough() {
	verifDebPayload(scen.Options{SymModes: true, SymOwners: true, SymContent: true, SymDst: true, SymType: true, Second: -1})
}
