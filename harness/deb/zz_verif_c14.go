//go:build verif

package deb

import (
	"bytes"
	"time"

	"github.com/goreleaser/nfpm/v2"
	v "github.com/goreleaser/nfpm/v2/internal/zzverif"
)

func verifNum(name string, maxDigits int) string {
	s := v.NondetStringRange(name, 1, maxDigits)
	v.Assume(v.AllIn(s, "0-9"))
	if len(s) > 1 {
		v.Assume(s[0] != '0')
	}
	return s
}

//verif:summarize
func verifNumLess(a, b string) bool {
	if len(a) != len(b) {
		return len(a) < len(b)
	}
	return a < b
}

func verifAlnum(name string, lo, hi int) string {
	s := v.NondetStringRange(name, lo, hi)
	v.Assume(v.AllIn(s, "0-9a-zA-Z"))
	return s
}

func verifPre(name string, lo, hi int) string {
	s := v.NondetStringRange(name, lo, hi)
	if len(s) > 0 {
		v.Assume(v.SemverIdent(s))
	}
	return s
}

// verifMeta: semver build metadata of lo..hi bytes over [0-9A-Za-z-].
func verifMeta(name string, lo, hi int) string {
	s := v.NondetStringRange(name, lo, hi)
	v.Assume(v.AllIn(s, "0-9a-zA-Z-"))
	return s
}

// verifVerbatim: a version that is not a semantic version (schema none, or
// one that does not parse) over the characters such versions use.
func verifVerbatim(name string, lo, hi int) string {
	s := v.NondetStringRange(name, lo, hi)
	v.Assume(v.AllIn(s, "0-9a-z.+_-"))
	return s
}

func verifInfo(ver, pre, meta, rel, epoch string) *nfpm.Info {
	return &nfpm.Info{Name: "p", Arch: "amd64", Platform: "linux", Version: ver, Prerelease: pre, VersionMetadata: meta,
		Release: rel, Epoch: epoch, Description: "d", Maintainer: "m", MTime: time.Unix(1700000000, 0).UTC()}
}

// verifVersionField renders the control file and returns its Version field.
func verifVersionField(info *nfpm.Info) (string, bool) {
	var buf bytes.Buffer
	if err := writeControl(&buf, controlData{Info: info}); err != nil {
		return "", false
	}
	return v.Field822(buf.String(), "Version")
}

// Verif_C14_DebSyntax: the control Version field is [E:]V[~P][+M][-R], every component exactly once.
func Verif_C14_DebSyntax() {
	ver := verifNum("maj", 2) + "." + verifNum("min", 1) + "." + verifNum("pat", 1)
	pre := verifPre("pre", 0, v.Bound("C14.prelen", 3, 5))
	meta := verifMeta("meta", 0, 2)
	rel := verifAlnum("rel", 0, 1)
	epoch := ""
	if v.NondetBool("hasEpoch") {
		epoch = verifNum("epoch", 2)
	}
	got, ok := verifVersionField(verifInfo(ver, pre, meta, rel, epoch))
	v.Reach("C14.deb.syntax.ran")
	v.Assert(ok, "deb-control-has-version")
	want := ""
	if epoch != "" {
		want = epoch + ":"
	}
	want += ver
	if pre != "" {
		want += "~" + pre
	}
	if meta != "" {
		want += "+" + meta
	}
	if rel != "" {
		want += "-" + rel
	}
	v.Observe("version", got)
	v.Assert(got == want, "deb-version-syntax")
}

func verifCmp(a, b *nfpm.Info) (int, bool) {
	va, oka := verifVersionField(a)
	vb, okb := verifVersionField(b)
	if !oka || !okb {
		return 0, false
	}
	return v.DpkgCompare(va, vb)
}

// Verif_C14_DebPrereleaseSortsFirst: V~P[+M][-R] < V[+M][-R] under dpkg's comparison.
func Verif_C14_DebPrereleaseSortsFirst() {
	ver := verifNum("maj", 2) + "." + verifNum("min", 1) + "." + verifNum("pat", 1)
	pre := verifPre("pre", 1, v.Bound("C14.prelen", 3, 5))
	meta := verifAlnum("meta", 0, 1)
	rel := verifAlnum("rel", 0, 1)
	c, ok := verifCmp(verifInfo(ver, pre, meta, rel, ""), verifInfo(ver, "", meta, rel, ""))
	v.Reach("C14.deb.pre.ran")
	v.Assert(ok, "deb-versions-comparable")
	v.Assert(c < 0, "deb-prerelease-sorts-before-release")
}

// Verif_C14_DebNumericOrder: a numerically smaller major.minor.patch sorts first.
func Verif_C14_DebNumericOrder() {
	a := [3]string{verifNum("a.maj", 2), verifNum("a.min", 2), verifNum("a.pat", 1)}
	b := [3]string{verifNum("b.maj", 2), verifNum("b.min", 2), verifNum("b.pat", 1)}
	less := verifNumLess(a[0], b[0]) || a[0] == b[0] && (verifNumLess(a[1], b[1]) || a[1] == b[1] && verifNumLess(a[2], b[2]))
	v.Assume(less)
	preA, preB := verifPre("a.pre", 0, 2), verifPre("b.pre", 0, 2)
	metaA, metaB := verifAlnum("a.meta", 0, 1), verifAlnum("b.meta", 0, 1)
	c, ok := verifCmp(verifInfo(a[0]+"."+a[1]+"."+a[2], preA, metaA, "", ""), verifInfo(b[0]+"."+b[1]+"."+b[2], preB, metaB, "", ""))
	v.Reach("C14.deb.num.ran")
	v.Assert(ok, "deb-versions-comparable")
	v.Assert(c < 0, "deb-numeric-order")
}

// Verif_C14_DebEpochDominates: a higher epoch sorts after a lower one whatever the rest.
func Verif_C14_DebEpochDominates() {
	ea, eb := verifNum("a.epoch", 2), verifNum("b.epoch", 2)
	v.Assume(verifNumLess(ea, eb))
	va := verifNum("a.maj", 2) + "." + verifNum("a.min", 1) + ".0"
	vb := verifNum("b.maj", 2) + "." + verifNum("b.min", 1) + ".0"
	c, ok := verifCmp(verifInfo(va, verifPre("a.pre", 0, 2), "", verifAlnum("a.rel", 0, 1), ea), verifInfo(vb, verifPre("b.pre", 0, 2), "", verifAlnum("b.rel", 0, 1), eb))
	v.Reach("C14.deb.epoch.ran")
	v.Assert(ok, "deb-versions-comparable")
	v.Assert(c < 0, "deb-higher-epoch-sorts-after")
}

// Verif_C14_DebVerbatim: a version that is used as written (schema none / not a
// semantic version: no prerelease, no metadata) is the control Version verbatim.
func Verif_C14_DebVerbatim() {
	ver := verifVerbatim("ver", 1, v.Bound("C14.verbatimlen", 3, 5))
	got, ok := verifVersionField(verifInfo(ver, "", "", "", ""))
	v.Reach("C14.deb.verbatim.ran")
	v.Assert(ok && got == ver, "deb-verbatim-version-kept-as-written")
}
