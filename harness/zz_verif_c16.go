//go:build verif

package nfpm

import (
	"errors"
	"os"
	"strings"

	"github.com/goreleaser/nfpm/v2/files"
	v "github.com/goreleaser/nfpm/v2/internal/zzverif"
	"github.com/goreleaser/nfpm/v2/internal/zzverif/models"
)

// Verif_C16_StrictDecoder: the parser asks the YAML decoder to reject unknown
// keys before it decodes. (Native replay: a document with an unknown key is rejected.)
func Verif_C16_StrictDecoder() {
	v.Reach("C16.strict.ran")
	if v.Symbolic() {
		v.Store("yaml.fill", func(any) error { return nil })
		v.Store("semver.next", errNotSemver)
		_, err := ParseWithEnvMapping(strings.NewReader("irrelevant"), nil)
		v.Assert(err == nil, "parse-succeeds-on-a-decodable-document")
		known, _ := v.Load("yaml.known").(bool)
		v.Assert(known, "decoder-rejects-unknown-keys")
		// no type of the configuration decodes its own subtree with a fresh
		// (non-strict) decoder: every UnmarshalYAML reachable from Config is run
		loose, _ := v.Load("yaml.node.decoded.nonstrictly").(bool)
		v.Assert(!loose, "no-subtree-is-decoded-non-strictly")
		return
	}
	_, err := ParseWithEnvMapping(strings.NewReader("name: x\narch: amd64\nversion: 1.0.0\n"), nil)
	v.Assert(err == nil, "parse-succeeds-on-a-decodable-document")
	_, err = ParseWithEnvMapping(strings.NewReader("name: x\narch: amd64\nversion: 1.0.0\nno_such_key: 1\n"), nil)
	v.Assert(err != nil, "decoder-rejects-unknown-keys")
	// natively: a misspelt key at every nesting level that has its own Go type
	head := "name: x\narch: amd64\nversion: 1.0.0\n"
	nested := []string{
		"scripts:\n  preinstal: a\n",
		"contents:\n- src: a\n  dst: /b\n  tpye: config\n",
		"contents:\n- src: a\n  dst: /b\n  file_info:\n    ownr: x\n",
		"overrides:\n  deb:\n    contents:\n    - src: a\n      dst: /b\n      expnad: true\n",
		"overrides:\n  rpm:\n    depnds: [a]\n",
		"deb:\n  signature:\n    key_fil: k\n",
		"rpm:\n  scripts:\n    pretrans_: a\n",
		"apk:\n  signature:\n    keyname: k\n",
		"archlinux:\n  scripts:\n    preupgrad: a\n",
		"ipk:\n  alternatives:\n  - priority: 1\n    targt: /a\n",
		"deb:\n  triggers:\n    interst: [a]\n",
	}
	allRejected := true
	for _, doc := range nested {
		if _, e := ParseWithEnvMapping(strings.NewReader(head+doc), nil); e == nil {
			allRejected = false
		}
	}
	v.Assert(allRejected, "no-subtree-is-decoded-non-strictly")
}

// verifPlain: n arbitrary bytes without '$'.
var errNotSemver = errors.New("not a semantic version")

func verifPlain(name string, n int) string {
	s := v.NondetStringN(name, n)
	v.Assume(v.AllIn(s, "\x00-\x23\x25-\xff"))
	return s
}

func verifWordN(name string, n int) string {
	s := v.NondetStringN(name, n)
	v.Assume(v.AllIn(s, "a-z/"))
	return s
}

func verifTrim(s string) string { return strings.TrimSpace(s) }

// Verif_C16_NoDollarUnchanged: a value without '$' is left as written whatever
// the environment; list items are whitespace-trimmed and dropped when empty.
func Verif_C16_NoDollarUnchanged() {
	n := v.NondetChoice("len", v.Bound("C16.len", 2, 4)+1) // one fork: all values share a length 0..bound
	cfg := &Config{}
	cfg.envMappingFunc = func(name string) string { return v.NondetString("env", 2) }
	name, ver, rel, pre := verifPlain("name", n), verifPlain("version", n), verifPlain("release", n), verifPlain("prerelease", n)
	plat, arch, home, maint := verifPlain("platform", n), verifPlain("arch", n), verifPlain("homepage", n), verifPlain("maintainer", n)
	vend, desc, lic, sect := verifPlain("vendor", n), verifPlain("description", n), verifPlain("license", n), verifPlain("section", n)
	// only the first list item may contain white space (each such byte forks the trimming code)
	dep0, dep1 := verifPlain("dep0", n), verifWordN("dep1", n)
	src, dst := verifWordN("src", n), verifWordN("dst", n)
	fld := verifPlain("field", n)
	cfg.Name, cfg.Version, cfg.Release, cfg.Prerelease = name, ver, rel, pre
	cfg.Platform, cfg.Arch, cfg.Homepage, cfg.Maintainer = plat, arch, home, maint
	cfg.Vendor, cfg.Description, cfg.License, cfg.Section = vend, desc, lic, sect
	cfg.Depends = []string{dep0, dep1}
	cfg.Deb.Fields = map[string]string{"K": fld}
	expand := v.NondetBool("expand")
	cfg.Contents = files.Contents{{Source: src, Destination: dst, Expand: expand}}
	cfg.expandEnvVars()
	v.Reach("C16.plain.ran")
	v.Assert(cfg.Name == name && cfg.Version == ver && cfg.Release == rel && cfg.Prerelease == pre, "version-fields-unchanged")
	v.Assert(cfg.Platform == plat && cfg.Arch == arch && cfg.Homepage == home && cfg.Maintainer == maint, "identity-fields-unchanged")
	v.Assert(cfg.Vendor == vend && cfg.Description == desc && cfg.License == lic && cfg.Section == sect, "descriptive-fields-unchanged")
	v.Assert(cfg.Deb.Fields["K"] == fld, "custom-field-unchanged")
	var want []string
	for _, d := range []string{dep0, dep1} {
		if t := verifTrim(d); t != "" {
			want = append(want, t)
		}
	}
	same := len(cfg.Depends) == len(want)
	if same {
		for i := range want {
			if cfg.Depends[i] != want[i] {
				same = false
			}
		}
	}
	v.Assert(same, "list-items-trimmed-and-empty-ones-dropped")
	if expand {
		v.Assert(cfg.Contents[0].Source == verifTrim(src) && cfg.Contents[0].Destination == verifTrim(dst), "opted-in-content-paths-only-trimmed")
	} else {
		v.Assert(cfg.Contents[0].Source == src && cfg.Contents[0].Destination == dst, "content-paths-untouched-without-opt-in")
	}
}

// Verif_C16_Expansion: a reference in an expandable field is replaced by the
// mapping's value; content paths only when expand: true; passphrases come from
// the format-specific variable with the general one as fallback.
func Verif_C16_Expansion() {
	val := v.NondetString("env.A", 2)
	general, debp, rpmp, apkp := v.NondetString("env.general", 1), v.NondetString("env.deb", 1), v.NondetString("env.rpm", 1), v.NondetString("env.apk", 1)
	cfg := &Config{}
	cfg.envMappingFunc = func(name string) string {
		switch name {
		case "A":
			return val
		case "NFPM_PASSPHRASE":
			return general
		case "NFPM_DEB_PASSPHRASE":
			return debp
		case "NFPM_RPM_PASSPHRASE":
			return rpmp
		case "NFPM_APK_PASSPHRASE":
			return apkp
		}
		return ""
	}
	p, s := v.NondetStringN("prefix", 1), v.NondetStringN("suffix", 1)
	v.Assume(v.AllIn(p, "a-z") && v.AllIn(s, "/.-"))
	ref := p + "${A}" + s
	want := p + val + s
	cfg.Name, cfg.Version, cfg.Release, cfg.Prerelease = ref, ref, ref, ref
	cfg.Platform, cfg.Arch, cfg.Homepage, cfg.Maintainer = ref, ref, ref, ref
	cfg.Vendor, cfg.Description = ref, ref
	cfg.RPM.Packager = ref
	cfg.Deb.Signature.KeyFile, cfg.RPM.Signature.KeyFile, cfg.APK.Signature.KeyFile = ref, ref, ref
	// key ids are expandable too, with or without a key file next to them (callback signing)
	noKeyFile := v.NondetBool("key.files.absent")
	if noKeyFile {
		cfg.Deb.Signature.KeyFile, cfg.RPM.Signature.KeyFile, cfg.APK.Signature.KeyFile = "", "", ""
	}
	idDeb, idRpm, idApk := ref, ref, ref
	cfg.Deb.Signature.KeyID, cfg.RPM.Signature.KeyID, cfg.APK.Signature.KeyID = &idDeb, &idRpm, &idApk
	cfg.Deb.Fields = map[string]string{"K": ref}
	cfg.Depends = []string{ref}
	cfg.Deb.Predepends, cfg.IPK.Predepends = []string{"basepre"}, []string{"basepre"}
	cfg.Overrides = map[string]*Overridables{"deb": {Depends: []string{ref}}}
	cfg.Overrides["deb"].Deb.Predepends = []string{ref}
	cfg.Overrides["deb"].IPK.Predepends = []string{ref}
	// the opt-in applies to an entry of any type (a symlink's src is its target)
	etype := []string{"", files.TypeSymlink, files.TypeDir, files.TypeRPMGhost, files.TypeConfigNoReplace, files.TypeTree, files.TypeRPMDoc}[v.NondetChoice("entry.type", 7)]
	cfg.Contents = files.Contents{{Source: ref, Destination: ref, Expand: true, Type: etype}, {Source: ref, Destination: ref, Type: etype}}
	cfg.expandEnvVars()
	v.Reach("C16.expand.ran")
	v.Assert(cfg.Contents[0].Type == etype && cfg.Contents[1].Type == etype && cfg.Contents[0].Expand, "content-entry-keeps-its-other-settings")
	v.Assert(cfg.Name == want && cfg.Version == want && cfg.Release == want && cfg.Prerelease == want, "version-fields-expanded")
	v.Assert(cfg.Platform == want && cfg.Arch == want && cfg.Homepage == want && cfg.Maintainer == want, "identity-fields-expanded")
	v.Assert(cfg.Vendor == want && cfg.Description == want && cfg.RPM.Packager == want, "descriptive-fields-expanded")
	if noKeyFile {
		v.Assert(cfg.Deb.Signature.KeyFile == "" && cfg.RPM.Signature.KeyFile == "" && cfg.APK.Signature.KeyFile == "", "key-files-expanded")
	} else {
		v.Assert(cfg.Deb.Signature.KeyFile == want && cfg.RPM.Signature.KeyFile == want && cfg.APK.Signature.KeyFile == want, "key-files-expanded")
	}
	v.Assert(*cfg.Deb.Signature.KeyID == want && *cfg.RPM.Signature.KeyID == want && *cfg.APK.Signature.KeyID == want, "key-ids-expanded")
	v.Assert(cfg.Deb.Fields["K"] == want, "custom-fields-expanded")
	v.Assert(len(cfg.Depends) == 1 && cfg.Depends[0] == verifTrim(want), "list-items-expanded")
	v.Assert(len(cfg.Overrides["deb"].Depends) == 1 && cfg.Overrides["deb"].Depends[0] == verifTrim(want), "override-list-items-expanded")
	// nested lists of an override block stay the block's own (expanded or as written), never the base's
	op, oi := cfg.Overrides["deb"].Deb.Predepends, cfg.Overrides["deb"].IPK.Predepends
	v.Assert(len(op) == 1 && (op[0] == ref || op[0] == verifTrim(want)) && len(oi) == 1 && (oi[0] == ref || oi[0] == verifTrim(want)), "override-nested-lists-stay-the-blocks-own")
	v.Assert(len(cfg.Deb.Predepends) == 1 && cfg.Deb.Predepends[0] == "basepre", "base-nested-list-unchanged")
	v.Assert(cfg.Contents[0].Source == verifTrim(want) && cfg.Contents[0].Destination == verifTrim(want), "content-paths-expanded-on-opt-in")
	v.Assert(cfg.Contents[1].Source == ref && cfg.Contents[1].Destination == ref, "content-paths-not-expanded-without-opt-in")
	pick := func(specific string) string {
		if specific != "" {
			return specific
		}
		return general
	}
	v.Assert(cfg.Deb.Signature.KeyPassphrase == pick(debp) && cfg.RPM.Signature.KeyPassphrase == pick(rpmp) && cfg.APK.Signature.KeyPassphrase == pick(apkp), "passphrase-specific-then-general")
}

// Verif_C16_CallerMapping: a configuration parsed with a caller-supplied
// mapping sees that mapping only: a name the mapping has no value for expands
// to nothing even when the process environment defines it (values, list
// items, passphrases).
func Verif_C16_CallerMapping() {
	valA := v.NondetString("map.A", 2)
	v.Assume(v.AllIn(valA, "a-z"))
	mapping := func(name string) string {
		if name == "A" {
			return valA
		}
		return ""
	}
	doc := "name: p${A}\narch: amd64\nversion: 1.0.0\nvendor: v${B}\ndepends:\n- ${B}\n- d${A}\n"
	if v.Symbolic() {
		models.Env["A"], models.Env["B"], models.Env["NFPM_PASSPHRASE"], models.Env["NFPM_DEB_PASSPHRASE"] = "procA", "procB", "leak", "leak2"
		v.Store("yaml.fill", func(t any) error {
			c := t.(*Config)
			c.Name, c.Arch, c.Version, c.Vendor = "p${A}", "amd64", "1.0.0", "v${B}"
			c.Depends = []string{"${B}", "d${A}"}
			return nil
		})
		v.Store("semver.next", errNotSemver)
	} else {
		os.Setenv("A", "procA")
		os.Setenv("B", "procB")
		os.Setenv("NFPM_PASSPHRASE", "leak")
		os.Setenv("NFPM_DEB_PASSPHRASE", "leak2")
	}
	cfg, err := ParseWithEnvMapping(strings.NewReader(doc), mapping)
	v.Reach("C16.mapping.ran")
	v.Assert(err == nil, "parse-succeeds-on-a-decodable-document")
	if err != nil {
		return
	}
	v.Assert(cfg.Name == "p"+valA, "reference-expanded-with-the-callers-mapping")
	v.Assert(cfg.Vendor == "v", "name-unknown-to-the-callers-mapping-expands-to-nothing")
	v.Assert(len(cfg.Depends) == 1 && cfg.Depends[0] == "d"+valA, "list-item-unknown-to-the-callers-mapping-is-dropped")
	v.Assert(cfg.Deb.Signature.KeyPassphrase == "" && cfg.RPM.Signature.KeyPassphrase == "" && cfg.APK.Signature.KeyPassphrase == "", "passphrases-come-from-the-callers-mapping-only")
}
