//go:build verif

package nfpm

import (
	"io"
	"io/fs"

	"github.com/goreleaser/nfpm/v2/files"
	v "github.com/goreleaser/nfpm/v2/internal/zzverif"
)

type verifStubPackager struct{}

func (verifStubPackager) Package(*Info, io.Writer) error    { return nil }
func (verifStubPackager) ConventionalFileName(*Info) string { return "x" }

var verifFormats = []string{"deb", "rpm", "apk", "archlinux", "ipk"}

func verifRegister() {
	ClearPackagers()
	for _, f := range verifFormats {
		RegisterPackager(f, verifStubPackager{})
	}
}

func verifWord(name string, n int) string {
	s := v.NondetStringN(name, n)
	v.Assume(v.AllIn(s, "a-z"))
	return s
}

// Verif_C13_ValidateKeys: an override block is accepted iff its key names a registered packager.
func Verif_C13_ValidateKeys() {
	verifRegister()
	key := v.NondetString("key", v.Bound("C13.keylen", 4, 9))
	cfg := &Config{Info: Info{Name: "n", Arch: "amd64", Version: "1.0.0"}, Overrides: map[string]*Overridables{key: {}}}
	err := cfg.Validate()
	v.Reach("C13.validate.ran")
	known := key == "deb" || key == "rpm" || key == "apk" || key == "archlinux" || key == "ipk"
	if known {
		v.Assert(err == nil, "override-for-registered-packager-accepted")
	} else {
		v.Assert(err != nil, "override-for-unknown-format-rejected")
	}
}

func verifBase() *Config {
	cfg := &Config{}
	cfg.Name, cfg.Arch, cfg.Version = "n", "amd64", "1.0.0"
	cfg.Depends = []string{verifWord("base.dep", 2)}
	cfg.Replaces = []string{verifWord("base.rep", 2)}
	cfg.Umask = 0o022
	cfg.Scripts.PreInstall = verifWord("base.pre", 2)
	cfg.Scripts.PostInstall = verifWord("base.post", 2)
	cfg.Deb.Compression = verifWord("base.debcomp", 2)
	cfg.RPM.Group = verifWord("base.group", 2)
	cfg.RPM.Summary = verifWord("base.summary", 2)
	cfg.Deb.Fields = map[string]string{"A": verifWord("base.field", 1)}
	baseKey := verifWord("base.keyid", 2)
	cfg.Deb.Signature.KeyID = &baseKey
	cfg.Contents = files.Contents{
		// an entry that "deb" drops comes BEFORE one it keeps: a filter that
		// compacts the shared list in place then changes the configuration
		{Source: "s0", Destination: "/all"},
		{Source: "s2", Destination: "/rpmonly", Packager: "rpm"},
		{Source: "s1", Destination: "/debonly", Packager: "deb"},
	}
	return cfg
}

func verifSame(a, b []string) bool {
	if len(a) != len(b) {
		return false
	}
	for i := range a {
		if a[i] != b[i] {
			return false
		}
	}
	return true
}

// Verif_C13_GetOverride: the effective settings of a format are the base with
// exactly the non-empty fields of its own override block replaced (lists
// wholesale, nested blocks field by field); blocks of other formats have no
// effect; a format without a block gets the base; the base is not modified.
func Verif_C13_GetOverride() {
	cfg := verifBase()
	bDep, bRep, bPre, bPost := cfg.Depends[0], cfg.Replaces[0], cfg.Scripts.PreInstall, cfg.Scripts.PostInstall
	bComp, bGroup, bSum, bField := cfg.Deb.Compression, cfg.RPM.Group, cfg.RPM.Summary, cfg.Deb.Fields["A"]
	// the override block of format "deb": each field empty or set
	od := &Overridables{}
	oDep := v.NondetBool("ov.depends")
	if oDep {
		od.Depends = []string{verifWord("ov.dep0", 2), verifWord("ov.dep1", 2)}
	}
	oPre := v.NondetString("ov.pre", 2)
	od.Scripts.PreInstall = oPre
	oComp := v.NondetString("ov.debcomp", 2)
	od.Deb.Compression = oComp
	oUmask := v.NondetU32("ov.umask")
	od.Umask = fsMode(oUmask)
	// reference-typed overridables: a custom-field map and a key-id pointer
	oField := verifWord("ov.field", 1)
	od.Deb.Fields = map[string]string{"B": oField}
	oKey := v.NondetString("ov.keyid", 2) // may be the empty string: a pointer to "" is an EMPTY override value
	v.Assume(v.AllIn(oKey, "a-z"))
	od.Deb.Signature.KeyID = &oKey
	bKey := *cfg.Deb.Signature.KeyID
	// an override block of another format must not matter
	orpm := &Overridables{Depends: []string{verifWord("rpm.dep", 2)}}
	orpm.Scripts.PostInstall = verifWord("rpm.post", 2)
	orpm.RPM.Group = verifWord("rpm.group", 2)
	cfg.Overrides = map[string]*Overridables{"deb": od, "rpm": orpm}
	v.Snapshot(cfg, "config")

	format := []string{"deb", "apk"}[v.NondetChoice("format", 2)]
	info, err := cfg.Get(format)
	v.Reach("C13.get.ran")
	v.Assert(err == nil && info != nil, "get-succeeds")
	if err != nil || info == nil {
		return
	}
	v.Assert(!v.Changed("config"), "get-does-not-modify-the-configuration")
	// fields no block of this format touches: always the base
	v.Assert(verifSame(info.Replaces, []string{bRep}) && info.Scripts.PostInstall == bPost && info.RPM.Group == bGroup &&
		info.RPM.Summary == bSum && info.Deb.Fields["A"] == bField && info.Name == "n", "untouched-fields-are-the-base")
	if format == "apk" { // no block: the base settings, and all contents
		v.Assert(verifSame(info.Depends, []string{bDep}) && info.Scripts.PreInstall == bPre && info.Deb.Compression == bComp && info.Umask == 0o022, "format-without-block-gets-the-base")
		v.Assert(len(info.Contents) == 3, "format-without-block-keeps-the-content-list")
		return
	}
	if oDep {
		v.Assert(verifSame(info.Depends, od.Depends), "list-replaced-wholesale-by-non-empty-override")
	} else {
		v.Assert(verifSame(info.Depends, []string{bDep}), "empty-override-list-keeps-the-base")
	}
	if oPre != "" {
		v.Assert(info.Scripts.PreInstall == oPre, "nested-field-overridden")
	} else {
		v.Assert(info.Scripts.PreInstall == bPre, "empty-nested-field-keeps-the-base")
	}
	if oComp != "" {
		v.Assert(info.Deb.Compression == oComp, "format-block-field-overridden")
	} else {
		v.Assert(info.Deb.Compression == bComp, "empty-format-block-field-keeps-the-base")
	}
	v.Assert(info.Deb.Fields["B"] == oField && info.Deb.Fields["A"] == bField, "map-field-merged-key-by-key")
	if oKey != "" {
		v.Assert(info.Deb.Signature.KeyID != nil && *info.Deb.Signature.KeyID == oKey, "pointer-field-overridden")
	} else {
		v.Assert(info.Deb.Signature.KeyID != nil && *info.Deb.Signature.KeyID == bKey, "pointer-to-empty-override-keeps-the-base")
	}
	if oUmask != 0 {
		v.Assert(uint32(info.Umask) == oUmask, "umask-overridden")
	} else {
		v.Assert(info.Umask == 0o022, "zero-umask-keeps-the-base")
	}
	// contents addressed to another packager are filtered out
	okc := len(info.Contents) == 2 && info.Contents[0].Destination == "/all" && info.Contents[1].Destination == "/debonly"
	v.Assert(okc, "content-of-other-packagers-filtered")
}

func fsMode(u uint32) fs.FileMode { return fs.FileMode(u) }

// Verif_C13_EveryField: for EVERY string, []string and bool leaf of
// Overridables (the list is generated from /repo's nfpm.go on each run) and
// every format: with the field set in the base and in the override block of
// format F, Get(F) yields the override value if it is non-empty and the base
// value otherwise; Get of another format yields the base value; the
// configuration is unchanged.
func Verif_C13_EveryField() {
	formats := []string{"deb", "rpm", "apk", "archlinux", "ipk"}
	lf := verifOvLeaves[v.NondetChoice("field", len(verifOvLeaves))]
	fi := v.NondetChoice("format", len(formats))
	f := formats[fi]
	g := formats[(fi+1+v.NondetChoice("other", len(formats)-1))%len(formats)]
	cfg := &Config{}
	cfg.Name, cfg.Arch, cfg.Version = "n", "amd64", "1.0.0"
	ov := &Overridables{}
	bS, oS := verifWord("base.value", 1), v.NondetString("override.value", 1)
	oSet := v.NondetBool("override.set")
	var oM uint32
	switch lf.Kind {
	case "string":
		lf.SetS(&cfg.Overridables, bS)
		lf.SetS(ov, oS)
	case "[]string":
		lf.SetL(&cfg.Overridables, []string{bS})
		if oSet {
			lf.SetL(ov, []string{oS, "second"})
		}
	case "bool":
		lf.SetB(&cfg.Overridables, v.NondetBool("base.bool"))
		lf.SetB(ov, oSet)
	case "mode":
		lf.SetM(&cfg.Overridables, 0o022)
		if oSet {
			oM = v.NondetU32("override.mode")
			v.Assume(oM != 0)
			lf.SetM(ov, oM)
		}
	}
	bB := false
	if lf.Kind == "bool" {
		bB = lf.GetB(&cfg.Overridables)
	}
	cfg.Overrides = map[string]*Overridables{f: ov}
	v.Snapshot(cfg, "config")
	inF, errF := cfg.Get(f)
	inG, errG := cfg.Get(g)
	v.Reach("C13.everyfield.ran")
	v.Assert(errF == nil && errG == nil && inF != nil && inG != nil, "get-succeeds")
	if errF != nil || errG != nil || inF == nil || inG == nil {
		return
	}
	v.Assert(!v.Changed("config"), "get-does-not-modify-the-configuration")
	switch lf.Kind {
	case "string":
		if oS != "" {
			v.Assert(lf.GetS(&inF.Overridables) == oS, "every-string-field-overridden-by-a-non-empty-value")
		} else {
			v.Assert(lf.GetS(&inF.Overridables) == bS, "every-string-field-keeps-the-base-under-an-empty-override")
		}
		v.Assert(lf.GetS(&inG.Overridables) == bS, "every-field-of-another-format-is-the-base")
	case "[]string":
		got := lf.GetL(&inF.Overridables)
		if oSet {
			v.Assert(verifSame(got, []string{oS, "second"}), "every-list-field-replaced-wholesale")
		} else {
			v.Assert(verifSame(got, []string{bS}), "every-list-field-keeps-the-base-under-an-empty-override")
		}
		v.Assert(verifSame(lf.GetL(&inG.Overridables), []string{bS}), "every-field-of-another-format-is-the-base")
	case "mode":
		// the override block holds NOTHING but this number
		if oSet {
			v.Assert(lf.GetM(&inF.Overridables) == oM, "every-numeric-field-overridden-by-a-non-zero-value")
		} else {
			v.Assert(lf.GetM(&inF.Overridables) == 0o022, "every-numeric-field-keeps-the-base-under-a-zero-override")
		}
		v.Assert(lf.GetM(&inG.Overridables) == 0o022, "every-field-of-another-format-is-the-base")
	case "bool":
		if oSet {
			v.Assert(lf.GetB(&inF.Overridables), "every-bool-field-set-by-a-true-override")
		} else {
			v.Assert(lf.GetB(&inF.Overridables) == bB, "every-bool-field-keeps-the-base-under-a-false-override")
		}
		v.Assert(lf.GetB(&inG.Overridables) == bB, "every-field-of-another-format-is-the-base")
	}
}
