#!/usr/bin/env python3
# Regenerates /verif/MANIFEST.json from the table below (kept in one place so that claims, notes and
# not_applicable stay consistent).
import json
props=[json.loads(l) for l in open('/verif/properties.jsonl')]
ids=[p['id'] for p in props]
CHECKS={
 'C01': dict(ref='DESIGN.md §5 C01', text="Bounded symbolic model checking of the real packagers: for each of the five formats, Package() is executed symbolically (go/ssa of the working tree) on a scenario whose modes/umask, owners, times, content bytes, destinations and entry types are symbolic one family at a time; the output is decoded and every payload entry compared with an independent reference plan; plus the defaults kernel WithFileInfoDefaults for all 32-bit modes/umasks.",
   note="tar/gzip/xz/zstd/rpmpack serialisation is replaced by Go models with a stated contract (injective framing); os.* by a symbolic file system; bounds: <=2 content entries, file bytes <=2/4, names <=2 bytes; sampled paths are re-run natively against the real libraries (witness replay) on every run"),
 'C03': dict(ref='DESIGN.md §5 C03', text="Bounded symbolic model checking: digests are uninterpreted functions (functional consistency only), so 'the stored digest is the digest of the bytes shipped' becomes an equality the solver decides: deb md5sums and Installed-Size, apk datahash / per-file SHA-1 / size, archlinux .MTREE and .PKGINFO size, ipk Installed-Size.",
   note="rpm digests and size tags are computed inside rpmpack (modelled) and are not claimed; real hash functions replaced by an uninterpreted-function model; compressors by an injective framing model"),
 'C04': dict(ref='DESIGN.md §5 C04', text="Bounded symbolic model checking of (a) member-name safety for every destination spelling up to 5/7 bytes and (b) container structure (member order, names, cut/complete tar segments, 512 alignment, compression/member name agreement) of deb, ipk, apk and archlinux packages decoded from the symbolic output.",
   note="acceptance of the real bytes by dpkg-deb/tar/gzip/xz/zstd/rpm and rpm lead/header/cpio layout are library serialisers that are modelled: not claimed"),
 'C05': dict(ref='DESIGN.md §5 C05', text="Bounded symbolic model checking of the planning code: normalisation helpers for all byte strings <=5/7, Contents.Less as a strict total order, the relevance predicate for all tags, and files.PrepareForPackager on all lists of 1 and 2 entries over every entry type x packager tag x spelling x source kind with symbolic destination bytes, against an independent reference planner and collision oracle.",
   note="symbolic file system and literal-pattern glob model (no glob metacharacters); destination segments 1 byte over a 2-letter alphabet, depth <=2; map iteration in insertion order (order-independence follows from the strict total order + uniqueness shown by K2/K4)"),
 'C08': dict(ref='DESIGN.md §5 C08', text="Bounded symbolic model checking: for every config type x format, deb/ipk conffiles, archlinux backup lines and rpm file flags (config/noreplace/missingok/ghost with default mode and no payload) are compared with the declared types on whole-package runs.",
   note="same models and bounds as C01; doc/licence/readme flags are covered by the relevance kernel of C05 and the flag table in the rpm harness"),
 'C09': dict(ref='DESIGN.md §5 C09', text="Bounded symbolic model checking: every subset of script slots per format (2^7 deb, 2^7 rpm, 2^6 apk, 2^6 archlinux, 2^4 ipk), script bytes symbolic and distinct per slot; the decoded control archive / scriptlets / .INSTALL must carry exactly the configured bytes in exactly the configured slots.",
   note="script length <=2/4 bytes; rpm scriptlets exclude NUL bytes (header strings are NUL terminated); serialisers modelled as in C01"),
 'C14': dict(ref='DESIGN.md §5 C14', text="Bounded symbolic model checking of rpm version syntax and ordering: formatVersion/buildRPMMeta on symbolic numeric components, prerelease (semver identifiers <=3/5 bytes), metadata, release, epoch; reference rpmvercmp/EVR comparison executed symbolically: prerelease < release, numeric order, epoch dominance.",
   note="which strings Masterminds/semver accepts is outside (regexp library); the comparator oracle is validated natively on rpm's published vectors; deb/ipk ordering and the semver split are added by later harnesses"),
}
NA={}
m={"version":1,
"setup_cmd":"cd /verif/engine && GOFLAGS=-mod=mod GOPROXY=off GOSUMDB=off GOTOOLCHAIN=local go build -o /verif/bin/gosym ./cmd/gosym",
"hooks":{"guard":"verif","enable":"no file in /repo is changed: harnesses, models and the harness API (all `//go:build verif`) are injected with go/packages Overlay (symbolic run) and `go test -overlay -tags verif` (native replay)","baseline_off_cmd":"cd /repo && go test -mod=mod -vet=off -count=1 -timeout 25m ./...","source_commits":[],"add_only":True},
"engines":[{"name":"gosym","path":"/verif/engine","serves_properties":sorted(CHECKS),"kind_free_text":"symbolic executor for Go SSA (golang.org/x/tools/go/ssa) of /repo's working tree: symbolic bytes/integers as QF_BV terms, path forking with solver feasibility queries, assertions as SMT queries (z3 4.8.12; z3 5.1.0 and cvc5 cross-check), native replay of counterexamples and sampled witnesses"}],
"checks":[],"not_applicable":[],
"notes":"Every check is `/verif/check <ID> quick|thorough`; exit 0 = all decided obligations discharged (open known findings print KNOWN-FINDING lines), 1 = replay-confirmed violation not in known_findings.json, 2 = inconclusive (load failure, solver disagreement, unreproduced counterexample, vacuous harness)."}
for i in ids:
    if i in CHECKS:
        c=CHECKS[i]
        m['checks'].append({"property_id":i,"quick_cmd":f"/verif/check {i} quick","thorough_cmd":f"/verif/check {i} thorough","evidence_file":f"/verif/evidence/{i}.json",
          "replay_cmd_template":f"/verif/check {i} --replay {{path}}","engine":"gosym",
          "level_claimed":{"category":"model_checking","text":c['text'],"design_ref":c['ref']},"level_note":c['note'],
          "technique":"symbolic execution of the Go SSA of the real code with SMT (QF_BV) feasibility and assertion queries, bounded"})
    else:
        m['not_applicable'].append({"property_id":i,"reason":NA.get(i,"check under construction in this session (solver-based harness not yet registered)")})
json.dump(m,open('/verif/MANIFEST.json','w'),indent=1)
print(len(m['checks']),'checks',len(m['not_applicable']),'n/a')
