#!/bin/sh
# run every registered check of a tier in sequence; prints one summary line per property
TIER="${1:-quick}"
V=$(cd "$(dirname "$0")" && pwd)
for p in C01 C02 C03 C04 C05 C06 C07 C08 C09 C10 C11 C12 C13 C14 C15 C16 C17; do
  s=$(date +%s)
  $V/check $p $TIER > /tmp/run_all_${TIER}_$p.log 2>&1
  rc=$?
  e=$(date +%s)
  echo "$p rc=$rc $((e-s))s $(grep -c '^VIOLATION' /tmp/run_all_${TIER}_$p.log) violations $(grep -c '^KNOWN-FINDING' /tmp/run_all_${TIER}_$p.log) known $(grep -c '^INCONCLUSIVE' /tmp/run_all_${TIER}_$p.log) inconclusive $(grep -c '^REDUCED-BOUND' /tmp/run_all_${TIER}_$p.log) reduced | $(grep "^$p $TIER:" /tmp/run_all_${TIER}_$p.log | cut -c1-160)"
done
