#!/bin/bash
# collect_seed.sh <worktree> <seed-id> <property> : verify a seeded change left in a scratch worktree and store it under /verif/seeded/<seed-id>
WT="$1"; ID="$2"; PROP="$3"
export GOFLAGS=-mod=mod GOPROXY=off GOSUMDB=off GOTOOLCHAIN=local
cd "$WT" || exit 2
DEMO=$(git status --short | grep '^??' | awk '{print $2}' | grep _test.go | head -1)
[ -z "$DEMO" ] && { echo "no demo test"; exit 2; }
SRC=$(git diff --name-only | tr '\n' ' ')
PKG=./$(dirname "$DEMO")
TESTNAME=$(grep -o 'func Test[A-Za-z0-9_]*' "$DEMO" | head -1 | sed 's/func //')
OUT=/verif/seeded/$ID; mkdir -p $OUT
git diff > $OUT/patch.diff
cp "$DEMO" $OUT/$(basename "$DEMO")
echo "src: $SRC demo: $DEMO pkg: $PKG test: $TESTNAME"
go build ./... || { echo BUILD-FAILS; exit 1; }
mv "$DEMO" "$DEMO.off"
SUITE=$(go test -vet=off -count=1 ./... 2>&1 | grep -c "^FAIL")
mv "$DEMO.off" "$DEMO"
WITH=$(go test -vet=off -count=1 -run "^$TESTNAME\$" $PKG 2>&1 | tail -1)
git diff > /tmp/collect_$ID.patch; git apply -R /tmp/collect_$ID.patch
WITHOUT=$(go test -vet=off -count=1 -run "^$TESTNAME\$" $PKG 2>&1 | tail -1)
git apply /tmp/collect_$ID.patch; rm -f /tmp/collect_$ID.patch
echo "suite_fail_lines=$SUITE | with change: $WITH | without: $WITHOUT"
python3 - "$OUT" "$PROP" "$SRC" "$DEMO" "$TESTNAME" "$SUITE" "$WITH" "$WITHOUT" <<'PY'
import json,sys
out,prop,src,demo,test,suite,w,wo=sys.argv[1:9]
json.dump({"property":prop,"files_changed":src.split(),"demo_test":demo,"demo_test_name":test,
 "confirmed":{"go_build":"ok","existing_suite_FAIL_lines_with_change":int(suite),"demo_with_change":w,"demo_without_change":wo},
 "needs_to_manifest":"","what_i_ran":"collect_seed.sh in the sub-agent's scratch worktree: go build ./...; go test -vet=off -count=1 ./... (demo moved aside); demo with the change; reverse-apply the source change; demo again; re-apply",
 "detected_by":[]},open(out+"/meta.json","w"),indent=1)
PY
